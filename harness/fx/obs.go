package fx

import (
	"bytes"
	"encoding/hex"
	"fmt"
	"math/big"
	"sort"
	"strings"

	"github.com/LemoFoundationLtd/lemochain-core/chain/account"
	"github.com/LemoFoundationLtd/lemochain-core/chain/types"
	"github.com/LemoFoundationLtd/lemochain-core/common"
	"github.com/LemoFoundationLtd/lemochain-core/common/crypto"
	"github.com/LemoFoundationLtd/lemochain-core/store"
	"github.com/LemoFoundationLtd/lemochain-core/store/protocol"
)

// Universe is everything a scenario ever named; observations read every getter over it.
type Universe struct {
	addrs  map[common.Address]bool
	skeys  map[common.Hash]bool
	codes  map[common.Hash]bool // asset codes
	ids    map[common.Hash]bool // asset ids / equity ids
	assetK map[string]bool      // asset profile keys
}

func NewUniverse() *Universe {
	return &Universe{addrs: map[common.Address]bool{}, skeys: map[common.Hash]bool{}, codes: map[common.Hash]bool{}, ids: map[common.Hash]bool{}, assetK: map[string]bool{}}
}

func (u *Universe) Addr(as ...common.Address) {
	for _, a := range as {
		u.addrs[a] = true
	}
}
func (u *Universe) StorageKey(ks ...common.Hash) {
	for _, k := range ks {
		u.skeys[k] = true
	}
}
func (u *Universe) AssetCode(cs ...common.Hash) {
	for _, c := range cs {
		u.codes[c] = true
		u.ids[c] = true // token assets use the code as id
	}
}
func (u *Universe) AssetID(is ...common.Hash) {
	for _, i := range is {
		u.ids[i] = true
	}
}
func (u *Universe) Addrs() []common.Address {
	out := make([]common.Address, 0, len(u.addrs))
	for a := range u.addrs {
		out = append(out, a)
	}
	sort.Slice(out, func(i, j int) bool { return bytes.Compare(out[i][:], out[j][:]) < 0 })
	return out
}

// World adds every address of a world.
func (u *Universe) World(w *World) {
	u.Addr(w.Founder.Addr)
	for i, d := range w.Deputies {
		u.Addr(d.Addr, w.Income[i])
	}
	for _, k := range w.Users {
		u.Addr(k.Addr)
	}
	u.Addr(common.HexToAddress("0x1001"), common.HexToAddress("0x09"))
}

// Logs extends the universe by everything a change-log list mentions.
func (u *Universe) Logs(logs types.ChangeLogSlice) {
	for _, l := range logs {
		u.Addr(l.Address)
		switch l.LogType {
		case account.StorageLog:
			if k, ok := l.Extra.(common.Hash); ok {
				u.StorageKey(k)
			}
		case account.AssetCodeLog, account.AssetCodeTotalSupplyLog:
			if k, ok := l.Extra.(common.Hash); ok {
				u.AssetCode(k)
			}
		case account.AssetCodeStateLog:
			if e, ok := l.Extra.(*account.ProfileChangeLogExtra); ok {
				u.AssetCode(e.UUID)
				u.assetK[e.Key] = true
			}
		case account.AssetIdLog, account.EquityLog:
			if k, ok := l.Extra.(common.Hash); ok {
				u.AssetID(k)
			}
		case account.VoteForLog:
			if a, ok := l.NewVal.(common.Address); ok {
				u.Addr(a)
			}
		}
	}
}

// Block extends the universe by everything a block names.
func (u *Universe) Block(b *types.Block) {
	u.Logs(b.ChangeLogs)
	u.Addr(b.MinerAddress())
	for _, tx := range b.Txs {
		u.Tx(tx)
	}
}

func (u *Universe) Tx(tx *types.Transaction) {
	u.Addr(tx.From(), tx.GasPayer())
	if tx.To() != nil {
		u.Addr(*tx.To())
	}
	u.Addr(crypto.CreateContractAddress(tx.From(), tx.Hash()))
	u.AssetCode(tx.Hash()) // create-asset: code = tx hash; issue: id = tx hash
	if box, err := types.GetBox(tx.Data()); err == nil {
		for _, s := range box.SubTxList {
			u.Tx(s)
		}
	}
}

// Obs is a flat field -> value observation.
type Obs map[string]string

// AccountSource is anything that hands out account accessors (account.Manager, ReadOnlyManager).
type AccountSource interface {
	GetAccount(common.Address) types.AccountAccessor
}

func normHash(h common.Hash) string {
	if h == common.Sha3Nil || h == (common.Hash{}) {
		return "-"
	}
	return h.Hex()
}

func profStr(p types.Profile) string {
	keys := make([]string, 0, len(p))
	for k, v := range p {
		if v == "" { // absent == empty (documented normalisation; the code itself tests == "")
			continue
		}
		keys = append(keys, k)
	}
	sort.Strings(keys)
	var sb strings.Builder
	for _, k := range keys {
		fmt.Fprintf(&sb, "%s=%q;", k, p[k])
	}
	return sb.String()
}

// ObsOpts selects optional parts of an observation.
type ObsOpts struct {
	Roots    bool // include the four trie roots
	Versions bool // include per-log-type version numbers
}

// Observe reads every getter of every account of the universe.
func Observe(src AccountSource, u *Universe, o ObsOpts) Obs {
	out := Obs{}
	skeys := sortedHashes(u.skeys)
	codes := sortedHashes(u.codes)
	ids := sortedHashes(u.ids)
	for _, a := range u.Addrs() {
		acc := src.GetAccount(a)
		p := a.Hex() + "/"
		out[p+"balance"] = acc.GetBalance().String()
		out[p+"codeHash"] = normHash(acc.GetCodeHash())
		code, err := acc.GetCode()
		if err != nil {
			out[p+"code"] = "ERR:" + err.Error()
		} else if len(code) > 0 {
			out[p+"code"] = hex.EncodeToString(crypto.Keccak256(code)) + fmt.Sprintf("/%d", len(code))
		}
		if acc.GetSuicide() {
			out[p+"suicide"] = "true"
		}
		if vf := acc.GetVoteFor(); vf != (common.Address{}) {
			out[p+"voteFor"] = vf.Hex()
		}
		if v := acc.GetVotes(); v != nil && v.Sign() != 0 {
			out[p+"votes"] = v.String()
		}
		if ps := profStr(acc.GetCandidate()); ps != "" {
			out[p+"candidate"] = ps
		}
		if sg := acc.GetSigners(); len(sg) > 0 {
			out[p+"signers"] = sg.String()
		}
		if o.Roots {
			out[p+"storageRoot"] = normHash(acc.GetStorageRoot())
			out[p+"assetCodeRoot"] = normHash(acc.GetAssetCodeRoot())
			out[p+"assetIdRoot"] = normHash(acc.GetAssetIdRoot())
			out[p+"equityRoot"] = normHash(acc.GetEquityRoot())
		}
		if o.Versions {
			for t := types.ChangeLogType(1); t < account.LOG_TYPE_STOP; t++ {
				if v := acc.GetVersion(t); v != 0 {
					out[fmt.Sprintf("%sversion/%d", p, t)] = fmt.Sprint(v)
				}
			}
		}
		for _, k := range skeys {
			v, err := acc.GetStorageState(k)
			if err != nil {
				out[p+"storage/"+k.Hex()] = "ERR:" + err.Error()
				continue
			}
			v = bytes.TrimLeft(v, "\x00")
			if len(v) > 0 {
				out[p+"storage/"+k.Hex()] = hex.EncodeToString(v)
			}
		}
		for _, c := range codes {
			as, err := acc.GetAssetCode(c)
			if err != nil {
				if err != types.ErrAssetNotExist {
					out[p+"asset/"+c.Hex()] = "ERR:" + err.Error()
				}
				continue
			}
			if as == nil {
				continue
			}
			ts := "nil"
			if as.TotalSupply != nil {
				ts = as.TotalSupply.String()
			}
			out[p+"asset/"+c.Hex()] = fmt.Sprintf("cat=%d div=%v code=%s dec=%d supply=%s repl=%v issuer=%s profile{%s}", as.Category, as.IsDivisible,
				as.AssetCode.Hex(), as.Decimal, ts, as.IsReplenishable, as.Issuer.Hex(), profStr(as.Profile))
		}
		for _, id := range ids {
			s, err := acc.GetAssetIdState(id)
			if err != nil && err != types.ErrAssetIdNotExist {
				out[p+"assetId/"+id.Hex()] = "ERR:" + err.Error()
			} else if s != "" {
				out[p+"assetId/"+id.Hex()] = s
			}
			eq, err := acc.GetEquityState(id)
			if err != nil {
				if err != types.ErrEquityNotExist {
					out[p+"equity/"+id.Hex()] = "ERR:" + err.Error()
				}
				continue
			}
			if eq != nil {
				e := "nil"
				if eq.Equity != nil {
					e = eq.Equity.String()
				}
				out[p+"equity/"+id.Hex()] = fmt.Sprintf("code=%s id=%s eq=%s", eq.AssetCode.Hex(), eq.AssetId.Hex(), e)
			}
		}
	}
	return out
}

func sortedHashes(m map[common.Hash]bool) []common.Hash {
	out := make([]common.Hash, 0, len(m))
	for h := range m {
		out = append(out, h)
	}
	sort.Slice(out, func(i, j int) bool { return bytes.Compare(out[i][:], out[j][:]) < 0 })
	return out
}

// ObserveAt observes the state as of a block through a fresh manager.
func ObserveAt(db protocol.ChainDB, block common.Hash, u *Universe, o ObsOpts) Obs {
	am := account.NewManager(block, db)
	return Observe(am, u, o)
}

// RawAccounts reads the raw AccountData records of a block's view.
func RawAccounts(db protocol.ChainDB, block common.Hash, u *Universe) Obs {
	out := Obs{}
	adb, err := db.GetActDatabase(block)
	if err != nil {
		out["ERR"] = err.Error()
		return out
	}
	for _, a := range u.Addrs() {
		d, err := adb.Get(a)
		if err != nil && err != store.ErrAccountNotExist {
			out[a.Hex()+"/raw"] = "ERR:" + err.Error()
			continue
		}
		if d == nil {
			continue
		}
		recs := make([]string, 0, len(d.NewestRecords))
		for t, r := range d.NewestRecords {
			recs = append(recs, fmt.Sprintf("%d:%d@%d", t, r.Version, r.Height))
		}
		sort.Strings(recs)
		bal := "nil"
		if d.Balance != nil {
			bal = d.Balance.String()
		}
		votes := "0"
		if d.Candidate.Votes != nil {
			votes = d.Candidate.Votes.String()
		}
		out[a.Hex()+"/raw"] = fmt.Sprintf("bal=%s code=%s sr=%s acr=%s air=%s er=%s votefor=%s votes=%s prof{%s} signers=%d recs=%v",
			bal, normHash(d.CodeHash), normHash(d.StorageRoot), normHash(d.AssetCodeRoot), normHash(d.AssetIdRoot), normHash(d.EquityRoot),
			d.VoteFor.Hex(), votes, profStr(d.Candidate.Profile), len(d.Signers), recs)
	}
	return out
}

// Diff lists fields that differ (at most max).
func Diff(a, b Obs, max int) []string {
	var out []string
	keys := map[string]bool{}
	for k := range a {
		keys[k] = true
	}
	for k := range b {
		keys[k] = true
	}
	ks := make([]string, 0, len(keys))
	for k := range keys {
		ks = append(ks, k)
	}
	sort.Strings(ks)
	for _, k := range ks {
		if a[k] != b[k] {
			out = append(out, fmt.Sprintf("%s: %q != %q", k, a[k], b[k]))
			if len(out) >= max {
				break
			}
		}
	}
	return out
}

// SumBalances adds every balance of the universe (conservation checks).
func SumBalances(src AccountSource, u *Universe) *big.Int {
	s := new(big.Int)
	for _, a := range u.Addrs() {
		s.Add(s, src.GetAccount(a).GetBalance())
	}
	return s
}

// TopStr renders a candidate top list.
func TopStr(db protocol.ChainDB, block common.Hash) string {
	var sb strings.Builder
	for _, c := range db.GetCandidatesTop(block) {
		fmt.Fprintf(&sb, "%s:%s,", c.GetAddress().Hex(), c.GetTotal().String())
	}
	return sb.String()
}

// UniverseDump is the serialisable form of a universe.
type UniverseDump struct {
	Addrs, SKeys, Codes, IDs []string
}

// Export serialises the universe.
func (u *Universe) Export() UniverseDump {
	var d UniverseDump
	for _, a := range u.Addrs() {
		d.Addrs = append(d.Addrs, a.Hex())
	}
	for _, h := range sortedHashes(u.skeys) {
		d.SKeys = append(d.SKeys, h.Hex())
	}
	for _, h := range sortedHashes(u.codes) {
		d.Codes = append(d.Codes, h.Hex())
	}
	for _, h := range sortedHashes(u.ids) {
		d.IDs = append(d.IDs, h.Hex())
	}
	return d
}

// ImportUniverse rebuilds a universe.
func ImportUniverse(d UniverseDump) *Universe {
	u := NewUniverse()
	for _, a := range d.Addrs {
		u.Addr(common.HexToAddress(a))
	}
	for _, h := range d.SKeys {
		u.StorageKey(common.HexToHash(h))
	}
	for _, h := range d.Codes {
		u.codes[common.HexToHash(h)] = true
	}
	for _, h := range d.IDs {
		u.ids[common.HexToHash(h)] = true
	}
	return u
}
