// Package run is the process protocol between the python driver (../../check) and an
// engine binary: "batches <tier>", "run <tier> <seed> <batch> <nbatches> <scratch>",
// "replay <file> <scratch>". Events go to stdout as JSON lines.
package run

import (
	"bufio"
	"crypto/sha256"
	"encoding/hex"
	"encoding/json"
	"fmt"
	"io/ioutil"
	"os"
	"path/filepath"
	"runtime/debug"
	"sort"
	"strconv"
	"sync"
)

type Ctx struct {
	Tier     string
	Seed     uint64
	Batch    int
	NBatches int
	Scratch  string
	Replay   bool

	mu      sync.Mutex
	out     *bufio.Writer
	cases   int64
	fps     map[string]bool // fingerprint -> nontrivial
	stats   map[string]int64
	sets    map[string]map[string]bool
	samples []interface{}
	nviol   int
}

const maxSamples = 3
const maxViolPerBatch = 25

// Thorough reports whether the thorough tier was requested.
func (c *Ctx) Thorough() bool { return c.Tier == "thorough" }

// Pick returns q for quick and t for thorough.
func (c *Ctx) Pick(q, t int) int {
	if c.Thorough() {
		return t
	}
	return q
}

// Share splits n cases over the batches and returns this batch's [lo,hi).
func (c *Ctx) Share(n int) (int, int) {
	lo := n * c.Batch / c.NBatches
	hi := n * (c.Batch + 1) / c.NBatches
	return lo, hi
}

// WAL records the case about to be executed, so that the driver knows which input killed
// the process if it dies.
func (c *Ctx) WAL(v interface{}) {
	b, _ := json.Marshal(v)
	_ = ioutil.WriteFile(filepath.Join(c.Scratch, fmt.Sprintf("wal-%d.json", c.Batch)), b, 0644)
}

func fph(s string) string {
	h := sha256.Sum256([]byte(s))
	return hex.EncodeToString(h[:8])
}

// Case counts one executed case with its structural fingerprint.
func (c *Ctx) Case(fingerprint string, nontrivial bool, sample interface{}) {
	c.mu.Lock()
	defer c.mu.Unlock()
	c.cases++
	k := fph(fingerprint)
	if nontrivial {
		c.fps[k] = true
	} else if _, ok := c.fps[k]; !ok {
		c.fps[k] = false
	}
	if sample != nil && len(c.samples) < maxSamples && nontrivial {
		c.samples = append(c.samples, sample)
	}
}

// Stat adds n to a named counter.
func (c *Ctx) Stat(name string, n int64) {
	c.mu.Lock()
	c.stats[name] += n
	c.mu.Unlock()
}

// Seen adds a member to a named set; the driver reports the size of the union.
func (c *Ctx) Seen(set, member string) {
	c.mu.Lock()
	m := c.sets[set]
	if m == nil {
		m = map[string]bool{}
		c.sets[set] = m
	}
	m[member] = true
	c.mu.Unlock()
}

func (c *Ctx) emit(v interface{}) {
	b, err := json.Marshal(v)
	if err != nil {
		b, _ = json.Marshal(map[string]string{"t": "error", "msg": err.Error()})
	}
	c.out.Write(b)
	c.out.WriteByte('\n')
	c.out.Flush()
}

// Violation reports a violated property with its witness class (mechanism, never seeds or
// addresses) and a replayable witness.
func (c *Ctx) Violation(class, msg string, witness interface{}) {
	c.mu.Lock()
	defer c.mu.Unlock()
	c.nviol++
	if c.nviol > maxViolPerBatch {
		c.stats["violations_suppressed"]++
		return
	}
	c.emit(map[string]interface{}{"t": "viol", "class": class, "msg": msg, "witness": witness, "batch": c.Batch})
}

// Inconclusive reports that something prevented a verdict.
func (c *Ctx) Inconclusive(msg string) {
	c.mu.Lock()
	defer c.mu.Unlock()
	c.emit(map[string]interface{}{"t": "inconclusive", "msg": msg, "batch": c.Batch})
}

// Note prints a free-form line for the log.
func (c *Ctx) Note(msg string) {
	c.mu.Lock()
	defer c.mu.Unlock()
	c.emit(map[string]interface{}{"t": "note", "msg": msg, "batch": c.Batch})
}

func (c *Ctx) finish() {
	c.mu.Lock()
	defer c.mu.Unlock()
	fps := make([]string, 0, len(c.fps))
	for k, nt := range c.fps {
		if nt {
			fps = append(fps, k)
		}
	}
	sort.Strings(fps)
	sets := map[string][]string{}
	for k, m := range c.sets {
		for mem := range m {
			sets[k] = append(sets[k], mem)
		}
		sort.Strings(sets[k])
	}
	c.emit(map[string]interface{}{"t": "summary", "batch": c.Batch, "cases": c.cases, "fps_nontrivial": fps,
		"fps_total": len(c.fps), "stats": c.stats, "sets": sets, "samples": c.samples})
	c.emit(map[string]interface{}{"t": "done", "batch": c.Batch})
}

// Engine is what an engine's main() hands to Main.
type Engine struct {
	// Batches returns the number of child processes to split a tier into.
	Batches func(tier string) int
	// Run executes this batch's share of the cases.
	Run func(c *Ctx)
	// Replay re-executes one recorded witness.
	Replay func(c *Ctx, witness json.RawMessage)
}

func newCtx() *Ctx {
	return &Ctx{out: bufio.NewWriterSize(os.Stdout, 1<<16), fps: map[string]bool{}, stats: map[string]int64{}, sets: map[string]map[string]bool{}}
}

// Main implements the command line protocol.
func Main(e Engine) {
	debug.SetTraceback("all")
	if len(os.Args) < 2 {
		fmt.Fprintln(os.Stderr, "usage: eng batches|run|replay ...")
		os.Exit(3)
	}
	switch os.Args[1] {
	case "batches":
		n := 1
		if e.Batches != nil {
			n = e.Batches(os.Args[2])
		}
		fmt.Println(n)
	case "run":
		c := newCtx()
		c.Tier = os.Args[2]
		c.Seed, _ = strconv.ParseUint(os.Args[3], 10, 64)
		c.Batch, _ = strconv.Atoi(os.Args[4])
		c.NBatches, _ = strconv.Atoi(os.Args[5])
		c.Scratch = os.Args[6]
		_ = os.MkdirAll(c.Scratch, 0755)
		e.Run(c)
		c.finish()
	case "replay":
		c := newCtx()
		c.Replay = true
		c.Tier = "quick"
		c.NBatches = 1
		c.Scratch = os.Args[3]
		_ = os.MkdirAll(c.Scratch, 0755)
		b, err := ioutil.ReadFile(os.Args[2])
		if err != nil {
			fmt.Fprintln(os.Stderr, err)
			os.Exit(3)
		}
		var w struct {
			Seed    uint64          `json:"seed"`
			Witness json.RawMessage `json:"witness"`
		}
		if err := json.Unmarshal(b, &w); err != nil {
			fmt.Fprintln(os.Stderr, err)
			os.Exit(3)
		}
		c.Seed = w.Seed
		if e.Replay == nil {
			fmt.Fprintln(os.Stderr, "engine has no replay")
			os.Exit(3)
		}
		e.Replay(c, w.Witness)
		c.finish()
	default:
		fmt.Fprintln(os.Stderr, "unknown command")
		os.Exit(3)
	}
	os.Stdout.Sync()
	os.Exit(0)
}

// Rng is a splitmix64 stream; every case is a function of (seed, case index).
type Rng struct{ s uint64 }

func NewRng(seed uint64, stream ...uint64) *Rng {
	r := &Rng{s: seed*0x9E3779B97F4A7C15 + 0x1234567}
	for _, x := range stream {
		r.s ^= r.Uint64() + x*0xBF58476D1CE4E5B9
		r.Uint64()
	}
	return r
}

func (r *Rng) Uint64() uint64 {
	r.s += 0x9E3779B97F4A7C15
	z := r.s
	z = (z ^ (z >> 30)) * 0xBF58476D1CE4E5B9
	z = (z ^ (z >> 27)) * 0x94D049BB133111EB
	return z ^ (z >> 31)
}

// Intn returns a number in [0,n).
func (r *Rng) Intn(n int) int {
	if n <= 0 {
		return 0
	}
	return int(r.Uint64() % uint64(n))
}

// Range returns a number in [lo,hi].
func (r *Rng) Range(lo, hi int) int { return lo + r.Intn(hi-lo+1) }

// Bool returns true with probability num/den.
func (r *Rng) Chance(num, den int) bool { return r.Intn(den) < num }

func (r *Rng) Bytes(n int) []byte {
	b := make([]byte, n)
	for i := 0; i < n; i += 8 {
		x := r.Uint64()
		for j := 0; j < 8 && i+j < n; j++ {
			b[i+j] = byte(x >> (8 * uint(j)))
		}
	}
	return b
}

// Perm returns a permutation of 0..n-1.
func (r *Rng) Perm(n int) []int {
	p := make([]int, n)
	for i := range p {
		p[i] = i
	}
	for i := n - 1; i > 0; i-- {
		j := r.Intn(i + 1)
		p[i], p[j] = p[j], p[i]
	}
	return p
}
