package fx

import (
	"encoding/base64"
	"encoding/json"
	"fmt"
	"math/big"

	"github.com/LemoFoundationLtd/lemochain-core/chain/params"
	"github.com/LemoFoundationLtd/lemochain-core/chain/types"
	"github.com/LemoFoundationLtd/lemochain-core/common"
	"github.com/LemoFoundationLtd/lemochain-core/common/crypto"
	"github.com/LemoFoundationLtd/lemochain-core/common/rlp"
)

// GasPrice used by default: the minimum the pool accepts.
var GasPrice = big.NewInt(1000000000)

// TxFields mirrors the wire layout of a transaction so that the harness can build and
// tamper with transactions field by field (the repository keeps the fields unexported).
type TxFields struct {
	Type          uint16
	Version       uint8
	ChainID       uint16
	From          common.Address
	GasPayer      *common.Address `rlp:"nil"`
	Recipient     *common.Address `rlp:"nil"`
	RecipientName string
	GasPrice      *big.Int
	GasLimit      uint64
	GasUsed       uint64
	Amount        *big.Int
	Data          []byte
	Expiration    uint64
	Message       string
	Sigs          [][]byte
	GasPayerSigs  [][]byte
}

// Fields decodes a transaction into its wire fields.
func Fields(tx *types.Transaction) *TxFields {
	enc, err := rlp.EncodeToBytes(tx)
	if err != nil {
		panic(err)
	}
	f := new(TxFields)
	if err := rlp.DecodeBytes(enc, f); err != nil {
		panic(err)
	}
	return f
}

// Tx encodes wire fields back into a transaction (error if the repository's decoder refuses).
func (f *TxFields) Tx() (*types.Transaction, error) {
	enc, err := rlp.EncodeToBytes(f)
	if err != nil {
		return nil, err
	}
	tx := new(types.Transaction)
	if err := rlp.DecodeBytes(enc, tx); err != nil {
		return nil, err
	}
	return tx, nil
}

// MustTx is Tx that panics.
func (f *TxFields) MustTx() *types.Transaction {
	tx, err := f.Tx()
	if err != nil {
		panic(err)
	}
	return tx
}

// Sign appends a sender signature (default signer) by each key.
func Sign(tx *types.Transaction, keys ...Key) *types.Transaction {
	for _, k := range keys {
		var err error
		tx, err = types.MakeSigner().SignTx(tx, k.Priv)
		if err != nil {
			panic(err)
		}
	}
	return tx
}

// TxB builds transactions for a world.
type TxB struct {
	W *World
}

func (b TxB) raw(typ uint16, from common.Address, to *common.Address, amount *big.Int, gas uint64, data []byte, exp uint64) *types.Transaction {
	if to != nil {
		return types.NewTransaction(from, *to, amount, gas, GasPrice, data, typ, b.W.ChainID, exp, "", "")
	}
	return types.NoReceiverTransaction(from, amount, gas, GasPrice, data, typ, b.W.ChainID, exp, "", "")
}

// Transfer is an ordinary LEMO transfer.
func (b TxB) Transfer(from Key, to common.Address, amount *big.Int, exp uint64) *types.Transaction {
	return Sign(b.raw(params.OrdinaryTx, from.Addr, &to, amount, 100000, nil, exp), from)
}

// Call is an ordinary tx with data and an explicit gas limit.
func (b TxB) Call(from Key, to common.Address, amount *big.Int, gas uint64, data []byte, exp uint64) *types.Transaction {
	return Sign(b.raw(params.OrdinaryTx, from.Addr, &to, amount, gas, data, exp), from)
}

// Create deploys init code.
func (b TxB) Create(from Key, initCode []byte, amount *big.Int, gas uint64, exp uint64) *types.Transaction {
	return Sign(b.raw(params.CreateContractTx, from.Addr, nil, amount, gas, initCode, exp), from)
}

// Vote votes for a candidate.
func (b TxB) Vote(from Key, candidate common.Address, exp uint64) *types.Transaction {
	return Sign(b.raw(params.VoteTx, from.Addr, &candidate, nil, 200000, nil, exp), from)
}

// Profile builds a candidate profile for a node key.
func Profile(node Key, income common.Address, isCandidate bool, intro string) types.Profile {
	p := types.Profile{
		types.CandidateKeyNodeID:        common.ToHex(node.NodeID),
		types.CandidateKeyHost:          "10.0.0.1",
		types.CandidateKeyPort:          "7001",
		types.CandidateKeyIncomeAddress: income.String(),
		types.CandidateKeyIntroduction:  intro,
	}
	if !isCandidate {
		p[types.CandidateKeyIsCandidate] = types.NotCandidateNode
	}
	return p
}

// Register registers / updates / unregisters a candidate; amount is the (additional) deposit.
func (b TxB) Register(from Key, p types.Profile, amount *big.Int, exp uint64) *types.Transaction {
	data, _ := json.Marshal(p)
	return Sign(b.raw(params.RegisterTx, from.Addr, nil, amount, 2000000, data, exp), from)
}

// CreateAsset creates an asset; the asset code is the tx hash.
func (b TxB) CreateAsset(from Key, category uint32, divisible, replenishable bool, profile types.Profile, exp uint64) *types.Transaction {
	a := &types.Asset{Category: category, IsDivisible: divisible, Decimal: 5, IsReplenishable: replenishable, Profile: profile, TotalSupply: big.NewInt(0)}
	data, err := json.Marshal(a)
	if err != nil {
		panic(err)
	}
	return Sign(b.raw(params.CreateAssetTx, from.Addr, nil, nil, 2000000, data, exp), from)
}

// IssueAssetRaw issues with a raw JSON amount string (may be negative / oversized / garbage).
func (b TxB) IssueAssetRaw(from Key, to common.Address, code common.Hash, amount string, meta string, exp uint64) *types.Transaction {
	data := []byte(fmt.Sprintf(`{"assetCode":"%s","metaData":%q,"supplyAmount":%s}`, code.Hex(), meta, amount))
	return Sign(b.raw(params.IssueAssetTx, from.Addr, &to, nil, 2000000, data, exp), from)
}

func (b TxB) IssueAsset(from Key, to common.Address, code common.Hash, amount *big.Int, meta string, exp uint64) *types.Transaction {
	return b.IssueAssetRaw(from, to, code, `"`+amount.String()+`"`, meta, exp)
}

func (b TxB) ReplenishAssetRaw(from Key, to common.Address, code, id common.Hash, amount string, exp uint64) *types.Transaction {
	data := []byte(fmt.Sprintf(`{"assetCode":"%s","assetId":"%s","replenishAmount":%s}`, code.Hex(), id.Hex(), amount))
	return Sign(b.raw(params.ReplenishAssetTx, from.Addr, &to, nil, 2000000, data, exp), from)
}

func (b TxB) ReplenishAsset(from Key, to common.Address, code, id common.Hash, amount *big.Int, exp uint64) *types.Transaction {
	return b.ReplenishAssetRaw(from, to, code, id, `"`+amount.String()+`"`, exp)
}

func (b TxB) ModifyAsset(from Key, code common.Hash, update types.Profile, exp uint64) *types.Transaction {
	data, _ := json.Marshal(&types.ModifyAssetInfo{AssetCode: code, UpdateProfile: update})
	return Sign(b.raw(params.ModifyAssetTx, from.Addr, nil, nil, 2000000, data, exp), from)
}

func (b TxB) TransferAssetRaw(from Key, to common.Address, id common.Hash, amount string, input []byte, gas uint64, exp uint64) *types.Transaction {
	// Input is a plain []byte field: encoding/json expects base64
	data := []byte(fmt.Sprintf(`{"assetId":"%s","transferAmount":%s,"input":"%s"}`, id.Hex(), amount, base64.StdEncoding.EncodeToString(input)))
	return Sign(b.raw(params.TransferAssetTx, from.Addr, &to, nil, gas, data, exp), from)
}

func (b TxB) TransferAsset(from Key, to common.Address, id common.Hash, amount *big.Int, exp uint64) *types.Transaction {
	return b.TransferAssetRaw(from, to, id, `"`+amount.String()+`"`, nil, 2000000, exp)
}

// ModifySignersUnsigned builds the tx without signatures (multisig accounts sign later).
func (b TxB) ModifySignersUnsigned(from common.Address, to common.Address, signers types.Signers, exp uint64) *types.Transaction {
	data, _ := json.Marshal(struct {
		Signers types.Signers `json:"signers"`
	}{signers})
	return b.raw(params.ModifySignersTx, from, &to, nil, 2000000, data, exp)
}

func (b TxB) ModifySigners(from Key, to common.Address, signers types.Signers, exp uint64) *types.Transaction {
	return Sign(b.ModifySignersUnsigned(from.Addr, to, signers, exp), from)
}

// Box wraps signed sub transactions; the box expiration must not exceed any sub-tx's.
func (b TxB) Box(from Key, subs types.Transactions, exp uint64) *types.Transaction {
	data, err := types.MarshalBoxData(subs)
	if err != nil {
		panic(err)
	}
	// the box's own gas is its fixed price only (sub-txs buy their own gas): a small limit lets a box fit into a
	// nearly full block while its sub-txs do not
	return Sign(b.raw(params.BoxTx, from.Addr, nil, nil, 100000, data, exp), from)
}

// Unsigned returns an unsigned transfer from an arbitrary address (multisig / tamper bases).
func (b TxB) Unsigned(typ uint16, from common.Address, to *common.Address, amount *big.Int, gas uint64, data []byte, exp uint64) *types.Transaction {
	return b.raw(typ, from, to, amount, gas, data, exp)
}

// Reimbursed builds a transaction whose gas is paid by payer: the sender signs the
// reimbursement hash, then the payer fixes gas terms and signs them.
func (b TxB) Reimbursed(typ uint16, from []Key, fromAddr common.Address, to *common.Address, payerAddr common.Address, payer []Key, amount *big.Int, data []byte, gas uint64, price *big.Int, exp uint64) *types.Transaction {
	var tx *types.Transaction
	if to != nil {
		tx = types.NewReimbursementTransaction(fromAddr, *to, payerAddr, amount, data, typ, b.W.ChainID, exp, "", "")
	} else {
		tx = types.NewReimbursementContractCreation(fromAddr, payerAddr, amount, data, typ, b.W.ChainID, exp, "", "")
	}
	for _, k := range from {
		var err error
		tx, err = types.MakeReimbursementTxSigner().SignTx(tx, k.Priv)
		if err != nil {
			panic(err)
		}
	}
	tx = types.GasPayerSignatureTx(tx, price, gas)
	for _, k := range payer {
		var err error
		tx, err = types.MakeGasPayerSigner().SignTx(tx, k.Priv)
		if err != nil {
			panic(err)
		}
	}
	return tx
}

var secpN, _ = new(big.Int).SetString("fffffffffffffffffffffffffffffffebaaedce6af48a03bbfd25e8cd0364141", 16)

// HighS returns the malleated twin (r, n-s, v^1) of a 65-byte signature: a different byte
// string that recovers to the same public key.
func HighS(sig []byte) []byte {
	if len(sig) != 65 {
		panic("sig length")
	}
	out := make([]byte, 65)
	copy(out, sig[:32])
	s := new(big.Int).SetBytes(sig[32:64])
	s.Sub(secpN, s)
	sb := s.Bytes()
	copy(out[64-len(sb):64], sb)
	out[64] = sig[64] ^ 1
	return out
}

// ContractAddr is the address CREATE from a top-level tx gives: keccak-based on (sender, tx hash).
func ContractAddr(sender common.Address, txHash common.Hash) common.Address {
	return crypto.CreateContractAddress(sender, txHash)
}
