// Package fx is the shared fixture: a world of keys, real nodes wired like production,
// an honest miner that drives the repository's own miner path at crafted chain times, and
// wire (RLP) transport between nodes.
package fx

import (
	"crypto/ecdsa"
	"encoding/binary"
	"fmt"
	"io/ioutil"
	"math/big"
	"os"
	"path/filepath"
	"time"

	"github.com/LemoFoundationLtd/lemochain-core/chain"
	"github.com/LemoFoundationLtd/lemochain-core/chain/consensus"
	"github.com/LemoFoundationLtd/lemochain-core/chain/deputynode"
	"github.com/LemoFoundationLtd/lemochain-core/chain/params"
	"github.com/LemoFoundationLtd/lemochain-core/chain/txpool"
	"github.com/LemoFoundationLtd/lemochain-core/chain/types"
	"github.com/LemoFoundationLtd/lemochain-core/common"
	"github.com/LemoFoundationLtd/lemochain-core/common/crypto"
	"github.com/LemoFoundationLtd/lemochain-core/common/flag"
	"github.com/LemoFoundationLtd/lemochain-core/common/log"
	"github.com/LemoFoundationLtd/lemochain-core/common/rlp"
	"github.com/LemoFoundationLtd/lemochain-core/store"
)

// Key is a deterministic secp256k1 key with its account address and node id.
type Key struct {
	Priv   *ecdsa.PrivateKey
	Addr   common.Address
	NodeID []byte
}

// NewKey derives key number i of a namespace.
func NewKey(ns string, i int) Key {
	for ctr := 0; ; ctr++ {
		var buf [8]byte
		binary.BigEndian.PutUint64(buf[:], uint64(i)<<8|uint64(ctr))
		d := crypto.Keccak256([]byte("verif-key/"+ns), buf[:])
		k, err := crypto.ToECDSA(d)
		if err != nil {
			continue
		}
		return Key{Priv: k, Addr: crypto.PubkeyToAddress(k.PublicKey), NodeID: crypto.PrivateKeyToNodeID(k)}
	}
}

// Quiet turns the repository's logging down to critical only.
func Quiet() {
	if os.Getenv("VERIF_LOG") != "" {
		log.Setup(log.LevelInfo, false, false)
		return
	}
	log.Setup(log.LevelCrit, false, false)
}

// World is the static configuration shared by all nodes of a scenario.
type World struct {
	ChainID     uint16
	Deputies    []Key
	Income      []common.Address
	Outsider    Key // a node key that is never a deputy
	Founder     Key
	Users       []Key
	GenesisTime uint32
	SlotMs      uint64 // mine timeout (slot length) in milliseconds
	Genesis     *chain.Genesis
	DeputyCap   int // the nodes' configured number of deputies per term (>= len(Deputies))
}

// WorldCfg selects the size of a world.
type WorldCfg struct {
	Deputies    int
	Users       int
	SlotMs      uint64
	GenesisTime uint32 // 0 = fixed past instant (1700000000)
	// DeputyCap is the nodes' configured deputy count (0 = the number of genesis deputies): with a larger value
	// registered candidates enlarge the deputy set at the next term
	DeputyCap int `json:",omitempty"`
}

func LEMO(n int64) *big.Int { return new(big.Int).Mul(big.NewInt(n), big.NewInt(1e18)) }

// NewWorld builds keys and the genesis description. Deputy i mines to Deputies[i].Addr and
// earns into Income[i].
func NewWorld(cfg WorldCfg) *World {
	w := &World{ChainID: 200, SlotMs: cfg.SlotMs, GenesisTime: cfg.GenesisTime, DeputyCap: cfg.DeputyCap}
	if w.DeputyCap <= 0 {
		// (a positive value below the number of genesis nodes is allowed: the surplus nodes are listed in the genesis
		// term record as candidates, not as deputies)
		w.DeputyCap = cfg.Deputies
	}
	if w.SlotMs == 0 {
		w.SlotMs = 10000
	}
	if w.GenesisTime == 0 {
		w.GenesisTime = 1700000000 // fixed: scenarios are a function of the seed only
	}
	w.Founder = NewKey("founder", 0)
	w.Outsider = NewKey("outsider", 0)
	infos := make([]*chain.CandidateInfo, 0, cfg.Deputies)
	for i := 0; i < cfg.Deputies; i++ {
		k := NewKey("deputy", i)
		w.Deputies = append(w.Deputies, k)
		inc := NewKey("income", i).Addr
		w.Income = append(w.Income, inc)
		infos = append(infos, &chain.CandidateInfo{MinerAddress: k.Addr, IncomeAddress: inc, NodeID: k.NodeID,
			Host: "127.0.0.1", Port: fmt.Sprintf("%d", 7001+i), Introduction: fmt.Sprintf("deputy %d", i)})
	}
	for i := 0; i < cfg.Users; i++ {
		w.Users = append(w.Users, NewKey("user", i))
	}
	w.Genesis = &chain.Genesis{Time: w.GenesisTime, ExtraData: "verif", GasLimit: params.GenesisGasLimit, Founder: w.Founder.Addr, DeputyNodesInfo: infos}
	return w
}

// DeputyByAddr returns the node key behind a miner address: a genesis deputy, or a user
// that registered as candidate (users register with their own key as node key).
func (w *World) DeputyByAddr(a common.Address) (Key, bool) {
	for _, k := range w.Deputies {
		if k.Addr == a {
			return k, true
		}
	}
	for _, k := range w.Users {
		if k.Addr == a {
			return k, true
		}
	}
	return Key{}, false
}

// KeyByAddr finds any key of the world (deputies, users, founder).
func (w *World) KeyByAddr(a common.Address) (Key, bool) {
	if k, ok := w.DeputyByAddr(a); ok {
		return k, true
	}
	for _, k := range w.Users {
		if k.Addr == a {
			return k, true
		}
	}
	if a == w.Founder.Addr {
		return w.Founder, true
	}
	return Key{}, false
}

// Node is one full node: real ChainDatabase, deputy manager, tx pool and BlockChain.
type Node struct {
	W    *World
	Dir  string
	DB   *store.ChainDatabase
	DM   *deputynode.Manager
	BC   *chain.BlockChain
	Pool *txpool.TxPool
	Self Key // identity used while this node processes requests (process global, see SetSelf)
	// GasLimit, when non-zero, is the block gas limit this node's miner chooses (a miner-chosen header field);
	// small values make blocks run full.
	GasLimit uint64
	// MineTimeoutMs is the time the miner path gives itself for packaging transactions (0 = ten minutes)
	MineTimeoutMs int64
}

// ScratchDir makes a fresh directory below $TMPDIR.
func ScratchDir(prefix string) string {
	d, err := ioutil.TempDir("", prefix)
	if err != nil {
		panic(err)
	}
	return d
}

// NewNode creates (or reopens, if dir already holds a database) a node.
func (w *World) NewNode(dir string, self Key) *Node {
	n := &Node{W: w, Dir: dir, Self: self}
	n.open()
	return n
}

func (n *Node) open() {
	SetSelf(n.Self)
	n.DB = store.NewChainDataBase(n.Dir)
	if _, err := n.DB.GetBlockByHeight(0); err != nil {
		chain.SetupGenesisBlock(n.DB, n.W.Genesis)
	}
	n.DM = deputynode.NewManager(n.W.DeputyCap, n.DB)
	n.Pool = txpool.NewTxPool()
	bc, err := chain.NewBlockChain(chain.Config{ChainID: n.W.ChainID, MineTimeout: n.W.SlotMs}, n.DM, n.DB, flag.CmdFlags{}, n.Pool)
	if err != nil {
		panic(err)
	}
	n.BC = bc
}

// Close stops the chain and closes the database (flushes the write-behind queue).
func (n *Node) Close() {
	if n.BC != nil {
		n.BC.Stop()
		n.BC = nil
	}
	if n.DB != nil {
		_ = n.DB.Close()
		n.DB = nil
	}
}

// Reopen closes and reopens the node on the same directory (a clean restart).
func (n *Node) Reopen() {
	// The repository's Close() does not wait for the write-behind goroutines; a real restart
	// is a new process. In-process we therefore quiesce first, so that the old instance's
	// goroutines cannot write into the files the new instance scans.
	n.WaitQueue()
	time.Sleep(20 * time.Millisecond)
	n.Close()
	time.Sleep(20 * time.Millisecond)
	n.open()
}

// Destroy closes the node and removes its directory.
func (n *Node) Destroy() {
	n.Close()
	_ = os.RemoveAll(n.Dir)
}

// SetSelf switches the process-global node identity.
func SetSelf(k Key) {
	deputynode.SetSelfNodeKey(k.Priv)
	consensus.VerifResetSigCache()
}

// Engine returns the node's consensus engine.
func (n *Node) Engine() *consensus.DPoVP { return n.BC.VerifEngine() }

// InTurn asks the real schedule which deputy may mine on parent at chain time t (seconds).
func (n *Node) InTurn(parent *types.Header, t uint32) (Key, error) {
	if n.DM.GetDeputiesCount(parent.Height+1) == 0 {
		// GetCorrectMiner divides by the deputy count; the real miner asks GetMyMinerAddress first
		return Key{}, fmt.Errorf("no stable term for height %d", parent.Height+1)
	}
	a, err := consensus.GetCorrectMiner(parent, int64(t)*1000, int64(n.W.SlotMs), n.DM)
	if err != nil {
		return Key{}, err
	}
	k, ok := n.W.DeputyByAddr(a)
	if !ok {
		return Key{}, fmt.Errorf("in-turn miner %s is not a world deputy", a.String())
	}
	return k, nil
}

// MineResult is what the honest miner produced.
type MineResult struct {
	Block   *types.Block
	Invalid types.Transactions // candidates the miner tried and discarded
	Miner   Key
}

// Mine runs the repository's miner path (PrepareHeader, ApplyTxs with per-tx
// snapshot/revert, Finalize, Seal, SignBlock) on this node for the given parent and chain
// time. The candidate txs are cloned first because the miner mutates them. The block is
// not inserted anywhere.
func (n *Node) Mine(parent *types.Block, t uint32, cands types.Transactions, extra string) (*MineResult, error) {
	return n.MineH(parent, t, cands, extra, nil)
}

// MineH is Mine with a hook that may override the miner-chosen header fields (GasLimit,
// Extra, Time, DeputyRoot) after PrepareHeader; the in-turn deputy is determined for t.
func (n *Node) MineH(parent *types.Block, t uint32, cands types.Transactions, extra string, override func(h *types.Header)) (*MineResult, error) {
	miner, err := n.InTurn(parent.Header, t)
	if err != nil {
		return nil, err
	}
	old := n.Self
	SetSelf(miner)
	defer SetSelf(old)
	asm := n.Engine().VerifAssembler()
	header, err := asm.PrepareHeader(parent.Header, extra)
	if err != nil {
		return nil, err
	}
	header.Time = t
	if n.GasLimit != 0 {
		header.GasLimit = n.GasLimit
	}
	if override != nil {
		override(header)
	}
	txs := CloneTxs(cands)
	timeout := int64(600000)
	if n.MineTimeoutMs > 0 {
		timeout = n.MineTimeoutMs
	}
	block, invalid, err := asm.MineBlock(header, txs, timeout)
	if err != nil {
		return nil, err
	}
	return &MineResult{Block: block, Invalid: invalid, Miner: miner}, nil
}

// Insert offers a block to the node through the validator path, exactly as the network
// would: the block is RLP round-tripped first (withLogs=false sends it like the p2p layer,
// without change logs).
func (n *Node) Insert(b *types.Block, withLogs bool) error {
	SetSelf(n.Self)
	wb, err := WireE(b, withLogs)
	if err != nil {
		// a block whose change logs cannot be encoded still travels like on the p2p layer
		wb, err = WireE(b, false)
		if err != nil {
			return err
		}
	}
	return n.BC.InsertBlock(wb)
}

// Confirms feeds a confirm packet.
func (n *Node) Confirms(b *types.Block, sigs []types.SignData) {
	SetSelf(n.Self)
	n.BC.InsertConfirms(b.Height(), b.Hash(), sigs)
}

// Resign replaces the header signature by key k's signature over the block hash.
func Resign(b *types.Block, k Key) {
	h := b.Hash()
	sig, err := crypto.Sign(h[:], k.Priv)
	if err != nil {
		panic(err)
	}
	b.Header.SignData = sig
}

// SignBlock signs a block hash with a deputy key (what a remote deputy's confirm would be).
func SignBlock(h common.Hash, k Key) types.SignData {
	sig, err := crypto.Sign(h[:], k.Priv)
	if err != nil {
		panic(err)
	}
	return types.BytesToSignData(sig)
}

// ConfirmsOf returns the confirm signatures of every deputy of the block's term except its miner.
func (n *Node) ConfirmsOf(b *types.Block) []types.SignData {
	var sigs []types.SignData
	for _, dn := range n.DM.GetDeputiesByHeight(b.Height(), true) {
		if dn.MinerAddress == b.MinerAddress() {
			continue
		}
		d, ok := n.W.DeputyByAddr(dn.MinerAddress)
		if !ok {
			continue
		}
		sigs = append(sigs, SignBlock(b.Hash(), d))
	}
	return sigs
}

// Stabilise feeds confirms from every deputy except the block's miner.
func (n *Node) Stabilise(b *types.Block) {
	n.Confirms(b, n.ConfirmsOf(b))
}

// Wire sends a block through the codec.
func Wire(b *types.Block, withLogs bool) *types.Block {
	out, err := WireE(b, withLogs)
	if err != nil {
		panic(err)
	}
	return out
}

// WireE is Wire returning the codec's error.
func WireE(b *types.Block, withLogs bool) (*types.Block, error) {
	src := b
	if !withLogs {
		src = b.ShallowCopy()
	}
	enc, err := rlp.EncodeToBytes(src)
	if err != nil {
		return nil, err
	}
	out := new(types.Block)
	if err := rlp.DecodeBytes(enc, out); err != nil {
		return nil, fmt.Errorf("block does not survive its own encoding: %v", err)
	}
	return out, nil
}

// WireTx sends a transaction through the codec.
func WireTx(tx *types.Transaction) *types.Transaction {
	enc, err := rlp.EncodeToBytes(tx)
	if err != nil {
		panic(err)
	}
	out := new(types.Transaction)
	if err := rlp.DecodeBytes(enc, out); err != nil {
		panic(fmt.Sprintf("tx does not survive its own encoding: %v", err))
	}
	return out
}

// CloneTxs round-trips every tx.
func CloneTxs(txs types.Transactions) types.Transactions {
	out := make(types.Transactions, len(txs))
	for i, tx := range txs {
		out[i] = WireTx(tx)
	}
	return out
}

// WaitQueue waits until the store's write-behind queue has written everything that was
// stabilised so far (asset indexes and canonical accounts are read from there).
func (n *Node) WaitQueue() bool {
	// The queue is drained by Close(); while running we poll the stable account of the
	// founder until the stable block's account writes are visible, bounded.
	deadline := time.Now().Add(5 * time.Second)
	for time.Now().Before(deadline) {
		if n.DB.Beansdb == nil {
			return true
		}
		if n.DB.VerifQueueIdle() {
			return true
		}
		time.Sleep(2 * time.Millisecond)
	}
	fmt.Fprintln(os.Stderr, "verif: write-behind queue did not become idle within 5s")
	return false
}

// PathOf returns dir/name.
func PathOf(dir, name string) string { return filepath.Join(dir, name) }
