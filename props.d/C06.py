# Driver configuration of C06
PROP = {
 'engine': 'c06', 'race': False, 'level': 'exploration', 'crash_is_violation': True,
 'technique': 'mutation-based runtime monitoring: wrongly signed / tampered transactions offered to the real miner and validator paths, effects judged by an authorisation predicate evaluated from recovered signers',
 'rule': 'scenario = 1..3 deputies; accounts: plain, multisig (2..6 signers, thorough up to 100; weights: exactly 100 in total / two halves / 99 + weak ones / random), temp-address '
         'multisig (60+40), plain and multisig gas payers. Per round 14 transactions (transfer / vote / contract creation, self-paid or reimbursed) are built with one operator each: exact; '
         'one signature short; one signature repeated (extra, or instead of a missing signer); foreign key substituted; high-s twin instead of a missing signer / of the own signature; wrong '
         'signing hash (default vs reimbursement); payer signature missing / foreign / repeated; unsigned foreign gas payer; gas limit or price raised after the payer signed; single-field '
         'tampering of type, chain id, from, gas payer, recipient, recipient name, gas price, gas limit, amount, data, expiration, message after signing; one in five box-wrapped. The real miner '
         'path packages what it accepts, two nodes validate the block. Oracle for every packaged (sub)tx, against the account state at the parent: sender signatures recover (over the signing '
         'hash the repo defines for that tx form) to the sender itself (plain) or to DISTINCT registered signers with weight >= 100 (multisig), no signer repeated; if somebody else pays, the same for '
         'the payer over (sender sigs, gas price, gas limit). distinct = (deputies, signer count, operator set); non-trivial = round where some but not all candidates were packaged A quarter of the candidates is wrapped into a box, half of those (plain senders) into a box of the sub-transaction\'s own sender. A third of the authorised boxed candidates is replaced by a signed box whose sub-transaction was swapped afterwards for another validly signed one announcing the original\'s hash; every sub-transaction of a packaged box must hash to what its fields hash to.',
 'assumptions': ['ecrecover (libsecp256k1 binding) is trusted to recover signers',
                 'an additional signature by a foreign key next to a sufficient set is not judged (the statement speaks of substituting)'],
 'min_cases': {'quick': 300, 'thorough': 8000},
 'min_stats': {'quick': {'candidates_offered': 4000, 'candidates_packaged': 800}},
 'timeout_s': {'quick': 900, 'thorough': 10800},
}
