# Driver configuration of C19 (text fields end up in MANIFEST.json and the evidence file).
PROP = {'engine': 'c19',
 'race': True,
 'parallel': 8,
 'level': 'exploration',
 'crash_is_violation': True,
 'technique': 'Go race detector + emitted-signature monitor + linearizability checking by sequential replay of recorded request histories',
 'rule': 'placeholder',
 'assumptions': [],
 'min_cases': {'quick': 60, 'thorough': 1500},
 'timeout_s': {'quick': 600, 'thorough': 3600}}
