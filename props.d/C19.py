# Driver configuration of C19 (text fields end up in MANIFEST.json and the evidence file).
PROP = {'engine': 'c19',
 'race': True,
 'gcflags': 'all=-d=checkptr=0',
 'parallel': 8,
 'level': 'exploration',
 'crash_is_violation': True,
 'technique': 'Go race detector + emitted-signature monitor + linearizability checking by sequential replay of recorded request histories',
 'rule': 'history = one real node (identity = deputy 0/1/2 of 3-5, so it signs confirms and can mine; one identity per child process) + material '
         'pre-built on a helper node: 0-2 stabilised prefix blocks, a tree of 3-8 blocks with siblings above the stable block with block times in '
         '[now-200 s, now-10 s] (confirm broadcast needs blocks younger than 3 min; times are searched with the repository\'s own GetCorrectMiner so '
         'that the node is in turn NOW on most tips and the real BlockChain.MineBlock succeeds), the other deputies\' confirm signatures. 2-4 client '
         'goroutines issue <= 7 mutating requests (BlockChain.InsertBlock of wire copies, some carrying embedded confirms; DPoVP.InsertConfirms '
         'packets incl. wrong-height ones; BlockChain.MineBlock) concurrently with 1-2 reader goroutines (CurrentBlock, StableBlock, '
         'GetBlockByHash/Height, HasBlock, GetCandidatesTop(head), IterateUnConfirms, LoadLatestBlock, GetConfirms, AccountManager().GetCanonicalAccount, '
         'account.NewManager(stable).GetAccount, TxProcessor().ReadContract incl. the reward precompile). Shapes: random / deepchain / forks / mine / '
         'bgsign (a packet makes a deep pre-inserted block stable so that the background batch confirm signs its ancestors while other clients insert '
         'the next blocks), lateconfirms (the same start, then one single-signature packet per remaining deputy for each ancestor that became stable below the confirmed '
         'block, back to back on one client or spread over the clients, with writes kept pending in the write-behind queue by the yield hooks) plus 6 fixed-shape histories '
         'in every run. No-loss monitor: every valid deputy signature of a packet InsertConfirms accepted is among the stored confirms of its block after the history (as long as '
         'the node holds the block). Hook H7 (verifhook.Yield) at 5 sites between critical sections, seeded per '
         'history: off / runtime.Gosched / 0.5-5 ms sleep; every third repetition without delays. Every history is executed 3 times (quick) / 20 times '
         '(thorough) on fresh nodes. Monitors: (1) race detector over everything, class = unordered pair of innermost repository frames; '
         '(2) every BlockConfirmData on the public confirm topic must recover to the node\'s own id over the named hash and name an offered/mined block '
         'at that height, every self-mined block\'s header signature likewise; (3) call/return stamps of one atomic counter + result (accepted / '
         'refused) per request; the final state (offered/mined blocks held, head, stable, signer set per block) must equal the outcome of some order '
         'consistent with real-time precedence and program order, executed request by request on a fresh node by the real implementation; first '
         'candidate = return-stamp order, then DFS over all consistent orders with pruning at the first request whose result differs, capped at '
         '40/150 replays. distinct = distinct (shape, deputies, identity, slot, tree shape, per-client request kinds, yield modes); non-trivial = '
         'at least one pair of overlapping requests of different clients and (stable block advanced or a block was mined) Shape minerace: one client inserts a chain block by block while each insertion holds the chain lock for 2..5 ms (yield sites inside InsertBlock / InsertConfirms), the others ask the node to mine in between (every block leaves the node in turn). lateconfirms starts with a decoy sibling the node signs, so that the chain next to it stays unsigned by the node and the background signer writes the ancestors\' records while the late packets arrive.',
 'assumptions': ['MASKING RISK: race reports are classified by the unordered pair of innermost repository function names. A new defect that races on a pair of '
                 'functions already listed as a known finding is not distinguished from the known one; and one root cause (a reader that walks the '
                 'unconfirmed tree without the lock) shows up under several pairs, depending on which field of a freshly published block is touched first',
                 'the race build disables checkptr (-gcflags=all=-d=checkptr=0): with it the vendored common/crypto/sha3/xor_unaligned.go (cast of &buf[0] to '
                 '*[21]uint64) makes the runtime throw "converted pointer straddles multiple allocations" as soon as a trie node above 136 bytes is hashed; '
                 'it reads only len(buf) bytes, so this is checkptr strictness, not a C19 observation',
                 'linearizability: the sequential specification is the implementation itself. The background batch confirm (goroutine started by UpdateStable) '
                 'changes compared state asynchronously; in a candidate order it is one pseudo request per height that became stable, ordered after the request '
                 'that moved the stable block and after the lower heights, otherwise free (in replays the real goroutine ends at its Yield site and the harness '
                 'calls Confirmer.BatchConfirmStable(h,h) at the chosen position; tag-only accessor DPoVP.VerifConfirmer). NORMALISATION: signer sets = '
                 'recovered node ids of header signature + stored confirms; on blocks at or below the final stable height the node\'s OWN id is removed '
                 'before comparing (the real background signer checks "enough confirms" and appends in two separate critical sections, so its own signature '
                 'may be present in addition to a packet that a strictly sequential order would have refused); on unstable blocks nothing is removed',
                 'request results are compared as accepted / refused only (the error value of a refused InsertBlock depends on whether the unlocked '
                 'isIgnorableBlock pre-check or the locked verification refuses it); BlockChain.InsertConfirms drops its error, so packets are issued through '
                 'the engine entry it forwards to (DPoVP.InsertConfirms)',
                 'BlockChain.MineBlock stamps the wall clock and reports nothing: whether it produced a block is learnt from the NewMinedBlock topic; every '
                 'failed attempt (not in turn, slot boundary passed) is a no-op, never a verdict. In a replay a mining request either is a no-op or inserts '
                 'the block that was actually mined, which additionally must have the head of that moment as parent',
                 'the concurrent run is read after quiescence (nothing observable changed for 200 ms, bounded by 6 s); before a not-linearizable verdict the '
                 'state is read once more 1 s later. A search that reaches its replay cap or its 90 s watchdog only increments linearizability_inconclusive',
                 'reads are not part of the linearizability check (only per-reader monotonicity of the stable height). A read that panics because the hash it '
                 'names was pruned between two reads (GetCandidatesTop(CurrentBlock().Hash()), account.NewManager(hash)) also does so sequentially: counted '
                 '(reads_panicked_on_stale_hash), not judged; any other panic of a read is a violation',
                 'block times and therefore hashes depend on the wall clock at process start and interleavings are up to the scheduler: a seed fixes the '
                 'structure of every history (fingerprints), not the bytes; race reports vary per run, hence the repetitions',
                 'the yield handler does not synchronise (one atomic load of an immutable plan); the stamp counter is touched by the mutating clients only, '
                 'which the chain lock orders anyway; readers use no harness synchronisation while requests run',
                 'one node under test at a time per process; the self node key is written once per process after all material has been built'],
 'level_note': 'exploration: seeded histories x repetitions under the scheduler\'s interleavings widened by yield/sleep injection; no claim of schedule '
               'coverage. Masking risk: a new race on an already-known pair of functions is not distinguished from the known finding. Linearizability '
               'modulo the node\'s own signature on stable blocks and modulo the kind of refusal.',
 'min_cases': {'quick': 100, 'thorough': 3600},
 'min_stats': {'quick': {'overlapping_request_pairs': 150, 'stable_heights_advanced': 60, 'mine_produced_block': 8, 'emitted_confirms_checked': 100,
                         'lin_searches': 100, 'reads': 3000, 'accepted_confirms_checked_for_loss': 100},
               'thorough': {'overlapping_request_pairs': 6000, 'stable_heights_advanced': 2400, 'mine_produced_block': 300, 'emitted_confirms_checked': 4000,
                            'lin_searches': 3600, 'reads': 120000}},
 'timeout_s': {'quick': 600, 'thorough': 3600}}
