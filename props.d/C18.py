# Driver configuration of C18 (text fields end up in MANIFEST.json and the evidence file).
PROP = {'engine': 'c18',
 'race': True,
 'parallel': 8,
 'level': 'exploration',
 'crash_is_violation': True,
 'technique': 'model-based runtime monitoring + recorded-history checking (interval checker, porcupine) + Go race detector',
 'rule': 'three monitors over the real txpool.TxPool. (1) sequential: seeded op sequences (AddTx, AddTxs, GetTxs(time,size), DelTxs; 20-900 ops) over '
         '<= 40 txs incl. boxes sharing sub txs, expirations around the query times, histories that append > 128 entries (capacity doubling) and '
         'delete-everything ops (gc), run in lock-step with a must/may set model; every selection is judged clause by clause (no duplicate, none '
         'expired, none deleted since its last accepted add, never a box with one of its sub txs, nothing accepted/undeleted/unexpired missing when the '
         'whole pool fits). (2) concurrent: 4-8 client goroutines, 12-30 calls over <= 9 txs on one pool, every call recorded with call/return stamps '
         'of one atomic counter; offline interval checker (sound on overlaps) + porcupine linearizability check against the same model (whole history, '
         'per independent tx group on timeout); everything under the race detector. (3) fork switch: a real node receives through InsertBlock / '
         'InsertConfirms the blocks of a random tree (3-5 deputies, forks from the stable block and from unstable blocks, overlapping tx sets incl. '
         'boxes, blocks mined from the node\'s own pool selection, delayed delivery, stabilisation of side-fork blocks) while clients submit txs; after '
         'every event the pool is read and compared with the fork the node is on. distinct = distinct (monitor, kind, size buckets, op-kind counts / '
         'height sequence); non-trivial = has accepted adds, deletes and selections (seq), overlapping calls and a selection (conc), at least one fork '
         'switch (fork)',
 'assumptions': ['a violation class names the clause that failed plus, where the monitor can observe it, the mechanism: ":orphaned-by-box-delete" = a shadow copy of '
                 'the pool\'s slice/index bookkeeping (never used for the verdict) says that a pending entry had lost its index entry before the violation '
                 '(sequential monitor), or the history contains a call that deletes a box (concurrent monitor, which has no sequential order to be more precise); '
                 'at most two witnesses per class and process are emitted, every violation is counted in the "violations <class>" counters',
                 '"accepted" = AddTx returned nil / counted by AddTxs (when AddTxs takes only part of a list the members become "may be pending"); rejections are never judged',
                 'DelTxs(box) also tells the pool to delete the box\'s sub txs (a box in a block executes them; TxGuard records them as appeared on the fork)',
                 'DelTxs(sub tx) makes every box that contains it "may be pending": the pool may drop it (it can no longer be executed) or keep it',
                 'a box counts as expired when it or one of its sub txs is expired; entries expired at a query time may be dropped for good by that query',
                 'fork monitor: a tx must be in the pool from an accepted client submission, or from the fork switch that abandons the block carrying it (top level), '
                 'until it gets onto the current fork (top level or executed inside a box); a sub tx executed inside a box of an abandoned block is not required to come '
                 'back on its own (the box is); a missing tx is not judged when a box / sub-tx relative of it is in the pool or on the current fork (mutual exclusion)',
                 'fork monitor runs in a child process whose race reports are filtered: only reports with a chain/txpool frame count for C18 (the node\'s own '
                 'background goroutines are property C19)',
                 'porcupine time-outs are counted (porcupine_inconclusive_timeout) and never decide'],
 'min_cases': {'quick': 3000, 'thorough': 60000},
 'min_stats': {'quick': {'conc_overlapping_call_pairs': 2000, 'fork_switches': 15, 'seq_cases_crossing_capacity_128': 20, 'seq_gc_resets': 100, 'porcupine_ok': 1000},
               'thorough': {'conc_overlapping_call_pairs': 40000, 'fork_switches': 300, 'seq_cases_crossing_capacity_128': 400, 'seq_gc_resets': 2000, 'porcupine_ok': 20000}},
 'timeout_s': {'quick': 900, 'thorough': 7200}}
