# Driver configuration of C20 (text fields end up in MANIFEST.json and the evidence file).
PROP = {'engine': 'c20',
 'race': True,
 'parallel': 8,
 'level': 'exploration',
 'crash_is_violation': True,
 'hang_is_violation': False,
 'technique': 'scripted-remote runtime monitoring with an in-order twin + model-based monitoring of the sync caches + Go race detector',
 'rule': 'two monitors. (1) PM level: the real network.ProtocolManager wired to a real chain like main/node (own process per history) and 1-3 '
         'scripted p2p.IPeer remotes injected over the public event bus; a valid linear segment of 6-12 blocks with transactions (mined with the '
         "repository's miner path at crafted past chain times, 1-5 deputies) is delivered as BlocksMsg (batches of 1-4, duplicates, confirms embedded), "
         'ConfirmMsg (also before their blocks, duplicates), ConfirmsMsg packs and TxsMsg batches (1-8 transactions incl. repeats and invalid ones) in a '
         'seeded order (uniform shuffle, reverse, all confirms first, near order, separate islands of orphans), with barriers on the drain timer; the '
         "remotes answer the node's GetBlocksMsg / GetConfirmsMsg / GetLstStatusMsg from the segment (immediately or only after the scripted "
         'deliveries), some announce the segment top in their handshake (range sync), in a third of the histories one more remote joins late, takes over deliveries and leaves again. Logical time = finished drains of the block cache (the '
         "manager's own loop notifications). Oracle: after every message was delivered and at most len(segment)+5 drains, CurrentBlock and StableBlock "
         'hashes equal those of a twin that received the same blocks and confirms in order; after at most 3 drains every valid transaction of every '
         'TxsMsg is in the pool exactly once (GetTxs with a time below every expiration). (2) cache level: network.BlockCache (Add before / between / '
         'after / equal to cached heights, siblings, repeats, Remove, Clear, consuming Iterate) and network.ConfirmCache (Push, Pop, Clear) in lock-step '
         'with a sorted multimap model; after every operation Size, FirstHeight, iteration content and ascending order / stored confirms are compared. '
         'Fixed regression list in every tier and seed (12 PM histories: the two design-time findings, orphan islands, all confirms first, every block twice, remotes that announce / join / leave while blocks stabilise, a confirm resp. a second copy of a block arriving while that block is being inserted; 8 cache histories incl. more than 10240 heights). distinct = distinct (mode, '
         'deputies, segment length, remotes, announcing remotes, deferred serving, duplicate / confirm / batch count buckets, barriers) resp. (cache, op-kind count buckets); '
         'non-trivial = at least two blocks and one delivery (PM), at least three kinds of operation (cache)',
 'assumptions': ['every confirm signature that the in-order twin receives is delivered to the node at least once as a ConfirmMsg; confirms embedded in blocks '
                 'and ConfirmsMsg packs only repeat those (a pack for a block the node does not have yet is dropped by design: packs are answers to the '
                 "node's own requests)",
                 'transaction batches are disjoint from the transactions inside the delivered blocks; expirations of batch transactions are relative to the wall '
                 'clock at execution (handleTxsMsg compares with time.Now); invalid batch members (expired, foreign chain id, life > 30 min) are recorded, not judged',
                 'bounded gap: every block request of the node is answered from the segment; a remote that answers only after the scripted deliveries still answers',
                 'race reports of the PM histories count for this property only when one of the two racing accesses is made by code of package network '
                 "(the chain's own background goroutines are property C19); the others are listed in the evidence",
                 'a violation class names the clause and what the monitors saw of the mechanism (how the first missing block / the lagging stable block had been '
                 'delivered and where it is now); at most one witness per class and process, every observation is counted in the "violations <class>" counters',
                 'wall-clock watchdogs (status round trip, fewer drains than expected in the time they should take) only ever produce INCONCLUSIVE'],
 'min_cases': {'quick': 2000, 'thorough': 40000},
 'min_stats': {'quick': {'pm_histories': 45, 'pm_blocks_sent_before_parent_in_chain': 60, 'pm_confirms_delivered_before_their_block': 60, 'pm_valid_txs_looked_up_in_pool': 100, 'pm_batches_with_fresh_txs_and_txs_already_on_the_branch': 3,
                         'cache_block_ops': 15000, 'cache_confirm_ops': 5000},
               'thorough': {'pm_histories': 900, 'pm_blocks_sent_before_parent_in_chain': 1200, 'pm_confirms_delivered_before_their_block': 1200, 'pm_valid_txs_looked_up_in_pool': 2000,
                            'cache_block_ops': 300000, 'cache_confirm_ops': 100000}},
 'timeout_s': {'quick': 900, 'thorough': 7200}}
