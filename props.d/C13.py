# Driver configuration of C13 (text fields end up in MANIFEST.json and the evidence file).
PROP = {'engine': 'c13',
 'race': False,
 'level': 'exploration',
 'technique': 'runtime monitoring: the real schedule functions executed over an exhaustively enumerated grid against a reference rotation written from the statement',
 'exhaustive': True,
 'crash_is_violation': True,
 'rule': 'every point of the grid deputies-per-term(1..9 quick, 1..17 thorough; equal, shrinking, growing and rotated membership across 3 '
         'terms) x slot {1,2,3,10}s x 12 heights (1, 2, mid-term, snapshot, last of interim, reward block, ...) x every parent miner (+ '
         'non-deputy / previous-term parent at height 1 and reward heights) x parent time x instant tp+k*T+delta (k=0..3n, delta in '
         '{0,1ms,T/2,T-1ms}) x every target deputy is executed against the real GetCorrectMiner / GetMinerDistance / GetDeputyByDistance / '
         'GetNextMineWindow / Validator.VerifyMiner / Miner.getSleepTime; distinct = distinct grid point; non-trivial = more than one '
         'deputy and (k>0 or a special height/parent)',
 'assumptions': ['slot lengths and parent times are whole seconds (as the statement says)',
                 'reference rotation is written from the property statement, independent of the repo code'],
 'min_cases': {'quick': 10000, 'thorough': 50000}}
