# Driver configuration of C09 (text fields end up in MANIFEST.json and the evidence file).
PROP = {'engine': 'c09',
 'race': False,
 'level': 'exploration',
 'crash_is_violation': True,
 'technique': 'runtime monitoring of the real store.ChainDatabase against a reference model executed in lock-step',
 'rule': 'one case = one history = one unconfirmed tree built, read and stabilised from a stable state: 4 (thorough 8) histories are chained on '
         'one fresh on-disk ChainDatabase (genesis with accounts made stable first); histories are separated by closing and reopening the database '
         '(the unconfirmed tree is lost, stable state carries over, the stable view\'s trie starts empty so that reads fall back to disk and cache '
         'the stable value in the shared trie in place). A history is 70..100 (thorough: up to 160) seeded operations: '
         'SetBlock of a synthetic block on any live block (branching <= 4, siblings at equal height, unconfirmed depth <= 8, bursts of 2..3 '
         'siblings writing one address), the block\'s account writes GetActDatabase(hash).Put(data, height) while it has no children (as '
         'account.Manager.Save does; one write per address and block, every value a unique id), AccountTrieDB.Get through any live view '
         'before / between / after the writes (caches the stable value in the shared trie in place), SetStableBlock of a random unconfirmed '
         'block (several rounds per history, building continues on the new stable block), full Get sweeps; 16..24 addresses that share a '
         'long hex prefix and differ in the last nibbles (plus a few that differ early). After every operation: every live view x every '
         'address == model (side-effect-free sweep: trie Find, else disk; 1/3 of the databases additionally sweep with the caching Get after every operation, in '
         'the others cache states stay diverse), IsExistByHash / GetBlockByHash / IterateUnConfirms / GetUnConfirmByHeight / LoadLatestBlock == model tree; after '
         'SetStableBlock: returned pruned set and store lookups == exactly the non-descendants, descendants\' views unchanged, GetAccount == '
         'stable view right away and after the write-behind queue is idle, GetBlockByHeight == stable path. A view-read-differs class names what was '
         'read (value of a non-ancestor = sibling-leak, of a farther ancestor = stale-ancestor, own write missing = lost-write) and what happened '
         'since all views were last seen right (a Get that fell back to disk and cached in place, or the kind of the operation). Hand-written '
         'histories incl. the regression cases of known defects run in every tier and seed. distinct = distinct sequence of '
         '(block depth.siblings | write | read | stabilise depth:pruned:kept); non-trivial = two fork branches (neither an ancestor of the '
         'other) wrote a common address and at least one stabilisation after the genesis',
 'assumptions': ['the store is used the way the node uses it: a block\'s account writes happen after SetBlock and before the block gets '
                 'children, once per address with dye = the block\'s height; reads may go through any live view at any time',
                 'views of blocks that are no longer live (pruned, or stable but older than the stable block) are not observed',
                 'a restart is Close + NewChainDataBase on the same directory in the same process after the write-behind queue went idle',
                 'single-threaded driver (concurrent access to the unconfirmed tree is C19)'],
 'min_cases': {'quick': 300, 'thorough': 10000},
 'min_stats': {'quick': {'view_reads_compared': 1000000, 'stabilisations': 600, 'pruned_blocks_checked': 500,
                         'persisted_reads_compared': 20000, 'nontrivial_histories': 200, 'get_reads_that_cached_the_stable_value': 800, 'reopens': 200},
               'thorough': {'view_reads_compared': 30000000, 'stabilisations': 20000, 'pruned_blocks_checked': 15000,
                            'persisted_reads_compared': 600000, 'nontrivial_histories': 6000, 'get_reads_that_cached_the_stable_value': 30000}},
 'timeout_s': {'quick': 600, 'thorough': 3600}}
