# Driver configuration of C07 (text fields end up in MANIFEST.json and the evidence file).
PROP = {'engine': 'c07',
 'race': False,
 'level': 'exploration',
 'crash_is_violation': True,
 'technique': "online monitor at the journal's client boundary (shadow of whole-state observations taken at every Snapshot and compared after "
              'every RevertToSnapshot: direct driver over every SafeAccount setter, and a proxy at the vm.AccountManager interface under the real '
              'EVM) + Finalise-after-full-revert vs never-applied control + fresh-manager view after discard + differential redo '
              '(Manager.RebuildAll of the published change logs on the parent vs the executed, saved state)',
 'rule': 'monitor 1: seeded sequences of 40..80 operations over 6 accounts of a mined base chain (two contracts with committed code/storage, one '
         'holding an asset id and an equity; asset issuer; equity holder; registered candidate; untouched address), 4 storage keys, 2 asset '
         'codes, 4 asset/equity ids: every SafeAccount setter (balance, storage incl. nil/empty/zero-padded values, code, self-destruct, voteFor, '
         'votes, candidate, candidate state, signers, asset code, total supply, asset-code state, asset id, equity, event) interleaved with '
         'Snapshot/RevertToSnapshot of live revisions at nesting up to 9, setters restricted to calls the system can issue (code only where '
         'evm.Create would; self-destruct/storage only on contracts; asset, candidate, vote and signer writes only on externally owned accounts; '
         'asset-state writes only on existing assets; single profile keys only on registered candidates); 70% of the sequences are free of '
         'self-destructs because the known self-destruct finding ends the judged part of a sequence; every sequence ends with revert to the '
         'outermost snapshot, one balance change per account and Finalise, compared with a control that never applied anything; afterwards a '
         'fresh manager at the same parent must observe the pristine state; witnesses are shrunk by greedy removal. monitor 2: the fixed '
         'regression programs plus generated template / nested CALL-CALLCODE-DELEGATECALL-STATICCALL compositions, asset transfers into '
         'contracts, grammar programs and precompile calls run by the real EVM through the shadowing proxy. monitor 3: every block of '
         'scn.Cluster scenarios (all 11 tx types, random bytecode, discards) plus a fixed "funded, self-destructs, funded again" block: '
         'RebuildAll(published block) on a fresh manager at the parent vs the state the node saved; and the miner\'s discard path: every third block is mined '
         'under a small block gas limit (candidates and sub-transactions in the middle of a box run into the exhausted gas pool), and a block with candidates that were '
         'tried and not packaged must equal the block the miner produces from the packaged list alone (compared only when both runs package the same ordered list). distinct = distinct (operation-kind '
         'sequence with revert levels | program kind, entry, snapshot/revert counts | set of change-log types of the block); non-trivial = at '
         'least 2 reverts, nesting >= 2 and 4 setter kinds | an EVM-issued revert with >= 2 live snapshots | a block with >= 3 log types A fixed sequence changes only the weights of a multi-signature account\'s signers (both, one), then replaces a signer, replaying each block\'s published logs. A call that fails without the EVM issuing any rollback must leave the state as before (before/after observation).',
 'assumptions': ['absent == empty for storage values, profile keys and asset-id metadata in observations (roots and change logs are compared exactly)',
                 'code hash {} == keccak(nil) (both mean no code); the in-memory event slice is not account state',
                 'the self-destruct flag is not saved with the account, so it is excluded from the redo-vs-saved-state comparison',
                 'RebuildAll skips the four *RootLog types, so the redo comparison is made through the getters without the roots'],
 'min_cases': {'quick': 700, 'thorough': 15000},
 'min_stats': {'quick': {'direct_reverts_checked': 2000, 'evm_reverts_checked': 150, 'redo_blocks': 80, 'discard_blocks_checked': 40, 'final_finalise_checks': 200, 'fresh_view_checks': 600},
               'thorough': {'direct_reverts_checked': 50000, 'evm_reverts_checked': 4000, 'redo_blocks': 2000, 'final_finalise_checks': 5000, 'fresh_view_checks': 15000}},
 'timeout_s': {'quick': 600, 'thorough': 5400}}
