# Driver configuration of C07 (text fields end up in MANIFEST.json and the evidence file).
PROP = {'engine': 'c07',
 'race': False,
 'level': 'exploration',
 'crash_is_violation': True,
 'technique': 'online monitor at the journal\'s client boundary (shadow of whole-state observations at every Snapshot, compared after every '
              'RevertToSnapshot; direct driver and proxy under the real EVM) + differential redo of published change logs vs execution',
 'rule': 'TODO',
 'assumptions': [],
 'min_cases': {'quick': 700, 'thorough': 15000},
 'timeout_s': {'quick': 600, 'thorough': 5400}}
