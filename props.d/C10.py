# Driver configuration of C10
PROP = {
 'engine': 'c10', 'race': False, 'level': 'exploration', 'crash_is_violation': True,
 'technique': 'reference-model runtime monitor (full sort from account reads vs published ranking) on a never-restarted and a randomly restarted node',
 'rule': 'scenario = world (2..3 deputies, 12 users with small balances so that vote weights tie, 9 candidates registered for a published list of 3..5 slots) + '
         '13..26 blocks of vote-heavy traffic (vote, re-vote, register, deposit top-up, unregister, transfers moving the minimum both ways) across one or two '
         'term snapshots, side-fork blocks on the same parent in a later slot, and clean restarts of one node at quiescent points (unstable blocks re-delivered). '
         'Oracle at every block on every fork and node: GetCandidatesTop(block) == all accounts whose profile says candidate in that block\'s view, sorted (votes '
         'desc, address asc), cut to the list size; snapshot blocks: deputy nodes == first N of the list at the parent, ranks 0..N-1, node ids from the profiles, '
         'votes non-increasing; a panic of the deputy manager when the block stabilises or at restart kills the batch (crash class). distinct = (deputies, height, '
         'candidate kinds); non-trivial = block with >= 2 txs Every third scenario lets a candidate register late, followed by an empty block; both become stable together and node R restarts at once.',
 'assumptions': ['the list size is set through a tag-only accessor (store.max_candidate_count) to 3..5 so that more candidates than slots exist',
                 'restarts are clean (queue drained); crash restarts are C08\'s subject'],
 'min_cases': {'quick': 400, 'thorough': 10000},
 'min_stats': {'quick': {'scenarios_with_about_as_many_candidates_as_slots': 8, 'top_lists_compared': 1500, 'snapshot_blocks_checked': 30, 'restarts': 50}},
 'timeout_s': {'quick': 900, 'thorough': 10800},
}
