# Driver configuration of C11
PROP = {
 'engine': 'c11', 'race': False, 'level': 'exploration', 'crash_is_violation': True,
 'technique': 'reference-tally runtime monitor (statement formula over the whole account universe after every block) with a known-deviation model',
 'rule': 'scenario = world (2..4 deputies, 10 users, dedicated income addresses) + 8..19 blocks of vote-heavy traffic: transfers with amounts at and '
         'around multiples of 200 LEMO, contract value flows, gas-only changes, vote, re-vote, register, deposit top-up, unregister, several txs touching the '
         'same accounts per block, across snapshot/reward/term-boundary heights. After every accepted block: for every account with a candidate profile, votes '
         '== floor(deposit/100 LEMO) + sum over accounts voting for it of floor(balance/200 LEMO) (unregistered: 0; never negative), computed by the harness '
         'from account reads over every address the scenario ever named. The balance each vote tx saw is obtained by running the real miner path on the prefix '
         'before it. distinct = (deputies, height, candidate kinds); non-trivial = block with a vote/register tx and >= 3 txs',
 'assumptions': ['vote txs inside box txs and vote txs at reward heights are not generated (the balance a vote tx sees there cannot be reconstructed from prefix executions)',
                 'known deviation model: per-vote-tx adjustment uses the balance before that tx while the end-of-block adjustment applies the block-net delta to the final candidate; '
                 'observation == formula is fine, == formula + modelled drift is the known finding, anything else is a violation',
                 'replay of a witness starts with an empty drift model'],
 'min_cases': {'quick': 300, 'thorough': 8000},
 'min_stats': {'quick': {'vote_txs': 200, 'candidate_tallies_compared': 2000}},
 'timeout_s': {'quick': 900, 'thorough': 10800},
}
