# Driver configuration of C15 (text fields end up in MANIFEST.json and the evidence file).
PROP = {'engine': 'c15',
 'race': False,
 'level': 'exploration',
 'crash_is_violation': True,
 'hang_is_violation': True,
 'technique': 'hostile-input runtime monitoring: child-process survival, liveness and allocation monitors',
 'rule': 'five surfaces driven with the real code, every case a materialised script: (a) the server side of the encryption handshake '
         '(p2p.NewPeer + DoHandshake as p2p.Server.HandleConn runs it) on a net.Pipe fed raw bytes: a valid client hello cut at every '
         'offset, wrong magic, every length-prefix class (0, small, exact, 25 MiB+-1, 64 MiB; 1 GiB and 4 GiB-1 once per run), a valid '
         'ECIES envelope around empty / random / wrong-shape / right-shape-absurd / truncated RLP, valid hello with single absurd fields, '
         'arbitrary write splits, close vs silent hold, and hand-built ECIES messages (own implementation of the scheme: anybody who knows '
         'the NodeID can put a valid tag on anything) whose encrypted part has every length 0..40 and larger ones up to the reader\'s cap, '
         'with valid / flipped / missing tag; (e) the dialling side: p2p.NewPeer + DoHandshake(prv, remoteID) as Server.HandleConn runs it '
         'for DialManager, against a scripted listener that takes the node\'s hello and answers with: a valid response whole and in awkward '
         'splits (the dial must succeed and a probe frame under the session key must be delivered), a valid response with one absurd field '
         '(key off the curve / zero / ff / x right y wrong / 63, 65, 33, 1, 0 bytes / missing / a list / 10 kB; nonce short / long / empty / '
         'missing / list), a valid envelope around arbitrary RLP trees and non-RLP bytes, the hand-built ECIES shapes of (a), a valid '
         'response cut at every offset incl. nothing at all, wrong magic, every length-prefix class up to 4 GiB-1, units behind an accepted '
         'response; after a complete unit the node\'s handshake has to reach a verdict (30 s watchdog) and an accepted one has to serve '
         'the connection; (b) after the repository\'s own client handshake Peer.Run + a ReadMsg consumer '
         'receive raw frames: every ciphertext length 1..49 and larger, declared lengths around the 25 MiB cap up to 4 GiB-1 with little '
         'data, every padding class after decryption (valid padding leaving 0..31 bytes, invalid pad bytes, filler mismatch), well-formed '
         'frames for every code 0..0x21 and huge codes x payload classes, a well-formed frame cut at every offset, bursts, byte-wise '
         'delivery, one full 25 MiB frame, then a probe frame tells whether the node kept the connection in sync or closed it; (c) the '
         'real ProtocolManager of a live node (3 deputies, 6 real blocks of the scenario zoo, 4 stable) behind a scripted p2p.IPeer '
         'injected over the public event bus: every code 0..0x20 x 28 payload classes (14 generic: empty, random, wrong-shape RLP, huge '
         'length headers, deep nesting, 10^5 items, truncated; 14 typed variants per code with absurd heights / hashes / signature lists / '
         'node strings / mutated valid blocks and transactions, 10^4 confirms, 10^5-element lists), hostile protocol-handshake replies, '
         'bursts of 3000 messages, a remote that does not read; (d) RLP-level mutants (17 operators on any field: empty, zero, max, '
         'longer, shorter, huge, wrap, flatten, drop, dup, repeat 10^4, swap, random) of the fixture\'s valid blocks (optionally re-signed '
         'by the in-turn deputy with recomputed tx root), confirm packets (garbage, duplicates, high-s twins, wrong height) and '
         'transactions (optionally re-signed; absurd numbers, type swaps, box / JSON payload garbage) handed to InsertBlock, '
         'InsertConfirms, VerifyTxBody, TxGuard.ExistTx, TxPool.AddTx and the miner path; distinct = distinct (surface, structural class); '
         'non-trivial = the node was given at least one frame / message / decodable object. Monitors: the worker child process survives '
         '(a supervisor turns a death into crash:<panic>@<first repository frame> with the logged window of inputs and restarts behind it), '
         'after every input an honest request is still answered (status round trip / probe frame / chain lock taken) within a 30 s '
         'watchdog, goroutine population back at baseline after the remote left (classes by innermost repository function), '
         'runtime.MemStats.TotalAlloc delta per input <= units*2*MaxPackageLength + 32*(bytes_sent + bytes_the_node_wrote_back) + 1 MiB '
         '(units = frames / messages of the input), and <= 2*MaxPackageLength + 1 MiB in the seconds after the remote left. A fixed '
         'regression list (one witness per defect found on the unchanged tree, plus the 1 GiB / 4 GiB-1 handshake lengths and two '
         '10300-message cache overflows) runs in every tier and for every seed Surface b also lets the node itself write (Peer.WriteMsg under a 60 ms write deadline, 12 B / 4 kB / 300 kB) while the remote takes 0..all bytes of the frame and stalls: the write has to return and the connection\'s goroutines have to end.',
 'assumptions': ['the scripted transport of surface c models p2p.Peer towards the manager (blocking ReadMsg, per-write deadline, idempotent Close '
                 'ending in a DeletePeer event); its write deadlines run 20x faster than the real ones',
                 'allocation is measured for the whole worker process (one input at a time, harness buffers built before the measurement starts); '
                 'bytes the node writes back on request count like bytes received, i.e. request/response amplification (a 7-byte GetBlocks '
                 'answered with megabytes, a GetConfirms decoding a whole block) is recorded as amplification buckets, not judged',
                 'a delayed crash (block cache timer, spawned goroutines) is attributed to the window of at most 32 inputs the node received '
                 'since its monitors last found it healthy; the replay re-executes the window on a fresh fixture node',
                 'expiration times of transactions sent to handleTxsMsg are relative to the wall clock at execution (the handler compares with time.Now)',
                 'connection closed-vs-kept is recorded, not judged; a node that keeps waiting for a silent or partial remote is judged by state, not by '
                 'time: if its end of the connection has no read deadline armed (and stays so for 5 s, to let Peer.Run arm its own after an accepted '
                 'handshake) nothing bounds the wait -> node-unresponsive:<surface>:waits-for-remote-without-read-deadline',
                 'surface e: the probe frame after an accepted dial is encrypted under the session key read from the node\'s peer object (tag-only '
                 'accessor), so the harness does not model the key derivation; the listener always takes the node\'s hello off the pipe first '
                 '(a pipe has no buffer, a TCP listener\'s kernel would take it)'],
 'min_cases': {'quick': 2500, 'thorough': 60000},
 'min_stats': {'quick': {'alloc_checks': 2500, 'goroutine_checks': 60, 'connections_a': 300, 'connections_b': 300, 'connections_e': 300, 'e_handshakes_accepted': 30, 'e_handshakes_refused': 200, 'e_probes_delivered_after_dial': 20, 'e_node_hellos_well_formed': 300, 'a_node_waits_under_a_read_deadline': 20, 'e_node_waits_under_a_read_deadline': 20, 'c_messages_sent': 1000, 'd_blocks_inserted': 100, 'd_txs_verified': 100, 'd_confirm_packets_inserted': 50},
               'thorough': {'alloc_checks': 50000, 'goroutine_checks': 1000}},
 'timeout_s': {'quick': 900, 'thorough': 10800}}
