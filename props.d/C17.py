# Driver configuration of C17 (text fields end up in MANIFEST.json and the evidence file).
PROP = {'engine': 'c17',
 'race': False,
 'level': 'exploration',
 'crash_is_violation': True,
 'technique': 'runtime monitoring with a lock-step map model and metamorphic oracles (fresh tries built from the model in several '
              'orders; an independently written statement of the Merkle pairing rule)',
 'rule': 'TRIE (seeded random, not exhaustive): a case is one fully materialised history of 100..200 operations (quick 300 histories, '
         'thorough 6000, plus 4 fixed hand-written histories) on 1 or 2 tries living on the TrieDatabase of a real BeansDB-backed '
         'store.ChainDatabase created for that history; half plain Trie, half SecureTrie; cache limit 0/1/2 generations (and 120 as '
         'chain/account uses); key universe of 4..40 keys in four styles (short keys over five byte values incl. the empty key and keys '
         'that are prefixes of others; 32-byte keys differing only in the last nibbles; hash-like keys; address-like mixture; one history in '
         '15 has 110..150 keys with mostly 1 KiB values so that a single TrieDatabase.Commit exceeds IdealBatchSize); values '
         'empty (=delete), 1..8, 9..31, 32..100 bytes and 1 KiB, 40% drawn from a pool of six so that states recur. Operations: TryUpdate, '
         'TryDelete, TryGet, read-all, Hash, Trie.Commit only, Trie.Commit+TrieDatabase.Commit(root,false) (the account.Manager.Save '
         'pattern), reopen any committed root through the same TrieDatabase (optionally continuing from it), reopen a flushed root through '
         'a new TrieDatabase, drop the TrieDatabase, quiesce+close+reopen the whole ChainDatabase, collect path nodes + VerifyProof + '
         'tampering. Oracles: every read equals the model; every Hash()/Commit() root equals the roots of four fresh tries built from the '
         'model alone (sorted insertion, two random orders, insert-junk-everywhere-then-overwrite/delete); one root never stands for two '
         'contents; a reopened root reads back the content recorded at its commit for every key of the universe, present and absent; '
         'VerifyProof over the collected nodes yields the stored value / absence, and yields an error after altering the root, withholding '
         'or altering any single path node, and never another value when nodes of a forged trie are offered. distinct = distinct '
         '(kind, cache limit, lanes, key count, operation-kind sequence); non-trivial = the history had at least one Commit that unloaded '
         'nodes (observed through the tag-only Trie.VerifShape), one TrieDatabase.Commit, one reopen and one delete of a present key. '
         'MERKLE (exhaustive over the stated bounds): every length 0..40 (thorough 0..300) x five leaf lists (random hashes, a list with '
         'repeated leaves, hashes of generated Transactions / ChangeLogs / DeputyNodes, whose MerkleRootSha is cross-checked) x EVERY '
         'position: FindSiblingNodes+Verify true against Root(), path equal to the path of the independently written rule, Verify false '
         'after altering the leaf, presenting another member, altering the root, and altering / side-swapping / withholding EVERY sibling '
         'step; Root() equals the rule; changing the leaf at EVERY position changes the root; swapping EVERY pair of different leaves '
         '(lengths <= 40; above that every neighbouring pair, the two ends and one random partner per position) changes the root.',
 'assumptions': ['the repository has no Prove (commented out in store/trie/proof.go): a proof is the list of node blobs VerifyProof reads '
                 'from the real TrieDatabase on the way from the committed root to the key',
                 'the receiver of a proof files every node under its own keccak hash (VerifyProof trusts its DatabaseReader to be content '
                 'addressed, as upstream does)',
                 'the whole-database restart quiesces the write-behind queue first (Close() does not wait for its goroutines; a torn queue '
                 "file is C08's subject)",
                 'the empty trie is spelled either as the zero hash or as keccak(rlp("")); the two are treated as equal',
                 'Merkle inclusion proofs are requested by leaf hash (the only API), so in a list with repeated leaves the proof is that of '
                 'the first position holding the hash'],
 'min_cases': {'quick': 450, 'thorough': 7000},
 'min_stats': {'quick': {'reads_compared': 20000, 'roots_compared': 10000, 'reopen_checks': 1000, 'proofs_verified': 500,
                         'proofs_rejected': 3000, 'commits_that_unloaded_nodes': 300, 'merkle_proofs_verified': 4000,
                         'merkle_tampers_rejected': 20000},
               'thorough': {'reads_compared': 400000, 'roots_compared': 200000, 'reopen_checks': 20000, 'proofs_verified': 10000,
                            'proofs_rejected': 60000, 'commits_that_unloaded_nodes': 6000, 'database_restarts': 500,
                            'merkle_proofs_verified': 200000, 'merkle_tampers_rejected': 1000000}},
 'timeout_s': {'quick': 600, 'thorough': 3600}}
