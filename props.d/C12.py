# Driver configuration of C12
PROP = {
 'engine': 'c12', 'race': False, 'level': 'exploration', 'crash_is_violation': True,
 'technique': 'conservation / authority runtime monitor over all (holder, asset id) equities and total supplies before and after every block',
 'rule': 'scenario = world (1..3 deputies, 8 users, zoo contracts) + 10..18 blocks of asset-heavy traffic: create (3 categories x divisible/replenishable), '
         'stabilise, then issue / replenish / modify (freeze, unfreeze) / transfer with amounts from {0, 1, in range, > balance, 2^256, negative, non-numeric, '
         'missing, JSON number}, senders issuer / holder / stranger, receivers self / other holder / accepting contract / reverting contract / burn address, '
         'optionally box-wrapped. After every accepted block, for every asset: divisible => TotalSupply(issuer) == sum of equity over every (holder, id) of that '
         'code; supply grows only in blocks with the issuer\'s issue/replenish and by at most their amounts, shrinks only with a transfer to the burn address; no '
         'holder that sent no transfer of an id in the block lost equity of it; nobody negative; frozen (and no modify tx in the block) => no equity moved. '
         'distinct = (deputies, height, candidate kinds); non-trivial = block with at least one asset tx included',
 'assumptions': ['holders are searched among every address the scenario or any change log ever named (plus the burn address)',
                 'per-block granularity: several transfers of the same id in one block are judged together'],
 'min_cases': {'quick': 300, 'thorough': 8000},
 'min_stats': {'quick': {'asset_txs_included': 300, 'equity_entries_compared': 1000}},
 'timeout_s': {'quick': 900, 'thorough': 10800},
}
