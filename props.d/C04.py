# Driver configuration of C04
PROP = {
 'engine': 'c04', 'race': False, 'level': 'exploration', 'crash_is_violation': True,
 'technique': 'ledger runtime monitor over every block a real node accepts (per-branch set of signed identities) under a replaying byzantine in-turn deputy',
 'rule': 'history = 2..4 deputies, slot 10 s, 25..45 honest blocks spaced 1 s .. 10 min (spans more than the 30 min tx lifetime) with 1..3 transfers each (standalone or boxed, '
         'lifetimes 0/1/59/60/61/600/1799/1800 s), stable pointer following with lag 0..3 (prunes the replay cache), victim restarts at quiescent points (cache reloaded from disk), '
         'side forks whose tx is later executed on the main fork. After every honest block a byzantine in-turn deputy offers 1..4 blocks replaying a random earlier tx: same bytes, '
         'extra signature appended, high-s twin, reordered multisig signatures, another sufficient signer subset of a 2-of-3 multisig account; standalone, inside a box, twice in one block; at chain times from now to the tx\'s expiration (and one second '
         'before). Two fixed edge histories replay the first block\'s txs in the last 60 s of their 1800 s life with the stable pointer right behind the head. Oracle: for every accepted '
         'block, no (signing hash, sender) identity is already on its ancestor path or twice in it; block time <= expiration <= block time + 30 min; a fork-only tx is accepted on the '
         'main fork. Fork-switch histories (3..5 deputies): 3..7 signed transfers are placed independently on two forks (absent / on its own / in box A / in box B), '
         'part of them reach the victim\'s real pool by gossip (guard asked first, like the network handler); the victim follows fork x, then the longer fork y, in half of '
         'the histories x again after it grew; after every accepted block the selection pool.GetTxs hands the node\'s own miner (MineBlock does not consult the replay '
         'guard) must contain no identity already on the current branch, and the block the assembler mines from it is judged like an accepted block. '
         'distinct = (deputies, length, span) resp. (deputies, fork lengths, placements); non-trivial = history spanning more than 30 min of chain time resp. with a fork switch Replay variants also include a signature appended by a foreign key; fresh transactions expiring 1..600 s beyond the maximum lifetime are offered on their own and inside a box that expires earlier. Replays are also wrapped (once, twice) into a box whose payload text announces random hashes for the sub-transactions.',
 'assumptions': ['signed identity = the signing hash the repository itself defines (all signed fields, not the signature list) + sender',
                 'attack blocks are produced by the real miner path on a helper node, which executes whatever candidates it is given'],
 'min_cases': {'quick': 50, 'thorough': 1200},
 'min_stats': {'quick': {'attack_blocks_offered': 1500, 'identities_checked': 3000, 'stabilisations': 800, 'fork_switches': 30, 'own_miner_selections_judged': 200, 'gossip_txs_pooled': 80}},
 'timeout_s': {'quick': 900, 'thorough': 10800},
}
