# Driver configuration of C03
PROP = {
 'engine': 'c03', 'race': False, 'level': 'exploration', 'crash_is_violation': True,
 'technique': 'invariant runtime monitor after every delivery step (stable pointer monotonicity / ancestry / immutability, head on stable subtree, distinct-signer quorum recount)',
 'rule': 'history = world with n = 1..7 deputies + stabilised linear prefix (1..11 blocks, every fourth ends right before the term snapshot height) + random block tree above the '
         'stable block built by the honest miner path in different slots (3..10 blocks, depth <= 6, siblings at equal height) + per block an adversarial confirmation multiset '
         '(valid, duplicates, high-s re-encoded twins, the miner\'s own signature copied / re-encoded, signatures for a sibling, non-deputy signer, random bytes, wrong height, '
         'unknown block; embedded in the block body or as 1..3 packets) delivered to a real node (identity outsider or deputy 0) in a seeded random order with duplicates; blocks '
         'rejected for a missing parent are re-offered. Every fourth history lets 1..3 users register as candidates in the prefix (nodes configured for n+3 deputies), '
         'so that the term elected at the snapshot block has more deputies and a larger two-thirds threshold; the prefix then runs through the interim period and the tree lies '
         'in the new term. After every step the five invariants of the statement are checked against the harness\'s own record of the tree; the quorum '
         'is recounted from the stored block by recovering every signature. distinct = (n, identity, prefix length, tree size, hostile); non-trivial = tree with siblings and >= 3 blocks Every eighth history lists more nodes in the genesis term record than the nodes\' configured deputy count: the nodes behind the cut sign confirms too and must not count. In hostile histories one deputy\'s confirm is delivered as three concurrent packets (signature, high-s twin, signature again) while a yield site between verifying and saving a packet waits 0.5 ms.',
 'assumptions': ['ancestry is decided from the harness\'s own record of everything offered, never by asking the node'],
 'min_cases': {'quick': 250, 'thorough': 6000},
 'min_stats': {'quick': {'stable_advances': 200, 'quorums_checked': 200, 'confirm_packets': 1000, 'scenarios_with_more_deputies_in_the_new_term': 20}},
 'timeout_s': {'quick': 900, 'thorough': 10800},
}
