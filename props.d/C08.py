# Driver configuration of C08
PROP = {
 'engine': 'c08', 'race': False, 'level': 'fault_enumeration', 'crash_is_violation': True,
 'technique': 'crash-point fault injection at hooks around every file/index write of the store (incl. torn writes) + recovery oracle in a fresh process',
 'rule': 'workload = pre-mined history of 10 main-chain blocks (transfers, contract code and storage, candidate registrations/votes, asset create/issue/transfer, multisig) with side '
         'blocks that get pruned and stabilisations after lags of 1..4 blocks, executed by a child process through InsertBlock / InsertConfirms with an fsynced ack line after every '
         'returned call; 2 seeded plans (thorough 3). A crash-free run counts the hook events per site (tmp.data and bitcask data writes and fsyncs, tmp.data remove/create, every LevelDB put '
         'incl. the stable pointer, context.data head/body/fsync). Crash point = (site, k-th occurrence) with the child os.Exit-ing inside the hook, or torn = a prefix (5/30/70/99 %) of the '
         'buffer is written and the process dies at the next hook. quick: first, second, quartiles, last two and two seeded occurrences per site (40 for the cursor put that follows a position put; bitcask file sites thinned 1/12); thorough: '
         'every occurrence of the low-volume sites (queue file, stable pointer, candidate file, rotation) and ~400 seeded occurrences of each high-volume site (position and cursor puts, bitcask file writes), plus second-level crashes during recovery for one point in seven. Recovery oracle in a fresh child: opens without panic/hang; stable height >= last '
         'acked promotion and on the chain; heights 0..stable readable by height and hash with parent links; every account field of the universe (balance, code, storage, assets, equities, '
         'profile, votes, signers, roots, versions, raw records) equals the reference observation of exactly that block; version trie agrees with the accounts; candidate file knows every '
         'candidate; then the whole history is re-delivered: final head, stable and state equal the never-stopped node. distinct = (site class, phase, plan, occurrence class) The plan ends with blocks on the final head that replay a transaction of an earlier block (refused by the never-stopped node): the restarted node must refuse them too; a quarter of the main blocks is empty. A recovered account field that holds the value of an earlier main-chain block (and of no later one) is reported as account-state-older-than-stable-block, apart from records that are ahead of the stable block.',
 'assumptions': ['process death with the page cache intact (kill -9), not power loss: data handed to write() survives, fsync ordering is not modelled',
                 'the child waits for the write-behind queue before each block insertion (transfer-asset txs read an index that goroutine maintains); crash points inside the write-behind goroutine are still hit',
                 'replay of a witness regenerates the plan from (seed, plan variant)'],
 'min_cases': {'quick': 60, 'thorough': 2000},
 'min_stats': {'quick': {'crashes_injected': 60, 'recoveries_checked': 40}},
 'timeout_s': {'quick': 1200, 'thorough': 14400},
}
