# Driver configuration of C02
PROP = {
 'engine': 'c02', 'race': False, 'level': 'exploration', 'crash_is_violation': True,
 'technique': 'mutation-based runtime monitoring: corrupted valid blocks offered to a real node, acceptance judged by a validity predicate written from the statement, rejections judged by a before/after state digest',
 'rule': 'base = valid block from the honest miner path on a varied chain (2..4 deputies, txs incl. boxes/votes, ordinary and snapshot heights, side blocks present). '
         'Mutants: ~33 single-field corruptions of the 11 hashed header fields x {not re-signed, re-signed by the rightful in-turn deputy, another deputy, an outsider}; '
         'random pairs of them; signature corruptions (bit flip, truncated, nil, high-s twin, foreign keys); body corruptions with the header untouched (drop / duplicate / '
         'swap / tamper tx, tx.GasUsed, change logs truncated / reordered / tampered / nil, deputy nodes garbage or tampered at snapshot heights, garbage confirms); consistent '
         're-mining by the in-turn deputy with manipulated tx lists (expired, expiry too far / at limit, duplicate in block, wrong chain id, missing recipient, box outliving its '
         'sub-tx, box in box, replay of an ancestor tx alone and inside a box). accepted => predicate (parent known, height, time window, extra <= 256, signed by the in-turn deputy, '
         'miner address, every tx well-formed / unexpired / not on the ancestor path, honest re-execution with the same miner-chosen fields reproduces the hash) and stored body agrees '
         'with hashed roots; rejected => digest(current, stable, membership of every offered hash, unconfirmed listing, Obs(head), pool, tx-guard samples, top list) unchanged. '
         'distinct = (deputies, mutation operator); every mutant is non-trivial The slot rule of the predicate is written from the term\'s deputy list (not the repository\'s schedule code, which only chooses the signer of re-mined blocks); the base transactions are mined again in up to 2n+1 later slots; every eighth scenario crosses a term change at which the deputy set grows and mutates the first block the new term signs. Extra data is also corrupted with well-formed multi-byte text (258 bytes in 86 characters, 768 in 256) and invalid UTF-8.',
 'assumptions': ['Extra (<= 256), GasLimit, Time inside the slot and DeputyRoot bytes at non-snapshot heights are miner-chosen: a correctly re-signed block differing only there is a different valid block',
                 'future-time mutants use now+5 s and now+100000 s, never the boundary itself',
                 'valid => accepted (completeness) is C01\'s subject; here only soundness and rejection purity are judged'],
 'min_cases': {'quick': 1500, 'thorough': 40000},
 'min_stats': {'quick': {'mutants_accepted': 30, 'rejections_digest_compared': 1200}},
 'timeout_s': {'quick': 900, 'thorough': 10800},
}
