# Driver configuration of C16 (text fields end up in MANIFEST.json and the evidence file).
PROP = {'engine': 'c16',
 'race': False,
 'level': 'exploration',
 'crash_is_violation': True,
 'hang_is_violation': True,
 'technique': 'runtime monitoring of the real EVM on the real account.Manager: tracer (steps, per-frame gas, depth), snapshot/revert shadow proxy, '
              'before/after whole-state observation, differential second run, end-to-end slice through mined and validated blocks',
 'rule': 'case = (program, entry point, caller, call data, gas, value): programs are random bytes, random bytes biased to stateful opcodes, '
         'grammar-generated straight-line/branching/looping programs with balanced stacks over all valid opcodes, contract templates with known '
         'effects (committed in a mined base chain or created in the same block) and nested CALL/CALLCODE/DELEGATECALL/STATICCALL compositions of '
         'them up to 4 levels, inputs for the nine precompiles (0x09 with and without the reward manager) and asset transfers into contracts; entry '
         'points evm.Call/Create/StaticCall/CallCode/DelegateCall/TransferAssetTx; gas in {0,1,5k,20000,20999,21000,21001,100k,5M, 2^62 for the '
         'recursive template}; value in {0,1,N,>balance}; distinct = distinct (generator kind, entry, gas class, value class, outcome class, '
         'snapshot/revert/depth buckets); non-trivial = executed at least one instruction and (failed, or rolled back an inner frame, or journaled a change)',
 'assumptions': ['the direct-EVM cases run on fresh managers over the head of a mined base chain; gas purchase/refund is outside the EVM and is covered by the end-to-end slice only',
                 'the in-memory event slice of an account is not state (no production reader); failure events are judged through the journal',
                 'steps <= gas+1 is judged for every gas value except the 2^62 depth case; every non-halting instruction must be charged >= 1 gas',
                 'clause 4/5 are judged at the top level (before/after observation), at every RevertToSnapshot the EVM issues (shadow proxy) and at '
                 'every nested CALL/CALLCODE/DELEGATECALL/STATICCALL/CREATE instruction whose frame reports failure or is read-only (tracer marks)'],
 'min_cases': {'quick': 2500, 'thorough': 150000},
 'min_stats': {'quick': {'depth_limit_reached': 1, 'failed_calls_checked': 500, 'static_calls_checked': 50, 'reverts_checked': 500, 'nested_frames_judged': 1000, 'e2e_txs': 50},
               'thorough': {'depth_limit_reached': 1, 'failed_calls_checked': 20000, 'static_calls_checked': 2000, 'reverts_checked': 20000, 'nested_frames_judged': 50000, 'e2e_txs': 500}},
 'timeout_s': {'quick': 600, 'thorough': 5400}}
