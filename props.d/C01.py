# Driver configuration of C01 (text fields end up in MANIFEST.json and the evidence file).
PROP = {'engine': 'c01',
 'race': False,
 'level': 'exploration',
 'crash_is_violation': True,
 'technique': "differential runtime monitoring (miner vs miner' vs repeated mining vs validators with different histories)",
 'rule': 'scenario = world (1..5 deputies) + 6..19 consecutive blocks whose candidate lists are drawn from a zoo of all 11 tx types '
         '(valid, failing-but-included, reverting, box-wrapped, template and random bytecode) interleaved with must-discard candidates; '
         "each block is executed by: the honest miner path with all candidates, twice more on fresh managers, another node's miner with "
         'the same survivors but a different discard set, survivors only, and four validators (one validate-only, one that mined and threw '
         'away other candidate sets, one reopened from disk); every fourth scenario is followed by a vote-flow scenario (two candidates, up to 8 voters funded with 30M LEMO; '
         'per block 2..4 transfers of 50..97 % of the payer\'s balance between voters, payers and receivers (re-)voting behind their transfer in the same block) aimed at the '
         'end-of-block pass that walks a hash map of balance changes; distinct = distinct (deputy count, height, candidate kind sequence); '
         'non-trivial = at least one discarded candidate and at least two tx types included From the third block on deputies (funded then) move the income address of their candidate profile in a third of the blocks: who is paid a block\'s fees depends on the state at its parent only. Every eighth scenario is followed by slow-contract blocks: the miner path has 3..25 ms left for packaging while a call runs a 20..60 M gas loop (alone, behind a store call, inside a box); every validator must accept what was packaged.',
 'assumptions': ['stable pointers of all nodes are aligned at reward heights (refund list is read from the stable candidate file)',
                 "snapshot-height blocks carry no transactions (vote changes inside a snapshot block are C10's known finding)",
                 'block time is crafted in the past; the only wall-clock input of validation is time <= now+1'],
 'min_cases': {'quick': 200, 'thorough': 5000},
 'min_stats': {'quick': {'voteflow_blocks': 60, 'executions': 3000}},
 'timeout_s': {'quick': 900, 'thorough': 10800}}
