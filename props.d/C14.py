# Driver configuration of C14 (text fields end up in MANIFEST.json and the evidence file).
PROP = {'engine': 'c14',
 'race': False,
 'level': 'exploration',
 'crash_is_violation': True,
 'technique': 'runtime monitoring of the real codecs: seeded edge-biased value generators with round-trip / hash / recovered-signer / '
              'canonical re-encoding oracles, non-canonical encodings derived from valid ones by an independent RLP parser, mutated and '
              'random byte strings and texts under recover() with a runtime.MemStats allocation monitor',
 'rule': 'five monitors, every case a function of (seed, stream, index): '
         '(value) 20k (quick) generated values over 28 types - Header, Block, Blocks, Transaction (all 11 types, gas payer nil/self/other, '
         'recipient present/nil, default / reimbursement+gas-payer / garbage signatures, box payloads with JSON sub transactions), every '
         'change-log type registered in chain/account/change_log.go with every NewVal/Extra shape its constructor can produce (nil, empty, '
         'maximal), AccountData, Asset, AssetEquity, DeputyNode(s), Signers, Profile, Event, the network messages of network/protocol.go and '
         'peer.go and the p2p handshake structs: decode(encode(v)) == v by a harness-owned reflective dump (nil==empty, caches skipped), same '
         'Hash()/Merkle roots/signing hashes, same recovered signers (three tx signers, header signer, confirm signatures), '
         'encode(decode(b)) == b for hashed/signed objects, p2p.Msg.Decode call site, JSON round trip of transactions and of box sub '
         'transactions; (canon) per valid encoding of 43 targets (consensus types + uint/big/string/bytes/array/list/nested-struct '
         'primitives) every node re-emitted as long-form length, length with leading zero, single byte wrapped as string, integer with '
         'leading zero, element beyond its list, extra / missing list element, plus trailing bytes, declared size beyond input and '
         'truncation: rlp.DecodeBytes must reject; (bytes) 110k (quick) mutations of valid encodings (16 kinds: bit flips, truncation, '
         'splice, length-prefix edits, node delete/dup/swap/kind flip, huge lengths, random) into all 72 RLP decoders (rlp.DecodeBytes, '
         'p2p.Msg.Decode, handshake stream) under recover(), decoded values then hashed / signers recovered / re-encoded, allocation per input '
         '<= 64*len+1MiB, plus lists of 1k / 20k (thorough: 300k, recorded per decoder and judged at 256*len) one-byte items at every list position '
         'of a transaction, block, account and discover response; (text) 24k mutated JSON / hex / decimal / address texts into 38 JSON and text decoders, a transaction accepted '
         'from JSON must have a wire form; (addr) 1.6k accounts x (text round trip in 4 casings, JSON, hex) x ~280 single-character '
         'substitutions / insertions / deletions / transpositions: rejected, or the canonical text of the account it decodes to. '
         'distinct = monitor x type x structural shape (tx type, optional fields, signature mode, log shape, mutation kind, outcome); '
         'non-trivial = at least one structural choice / a mutation of a valid encoding (pure random strings are trivial); thorough = x20; '
         'the regression witnesses of the defects found on the unchanged tree (fixed.go) run in every tier and seed',
 'assumptions': ['decode targets are pre-initialised exactly as the repository call sites do (Asset: TotalSupply and Profile, account.go:468)',
                 'Event values carry only the consensus fields (the derived ones are documented as not encoded)',
                 'leniency of a typed decoder towards a second encoding of the same value (short hash padded, empty list for an rlp:"nil" '
                 'pointer, trailing bytes through p2p.Msg.Decode) is recorded in the evidence, not judged: the statement demands canonical '
                 'acceptance of the low-level codec only',
                 'a corrupted address text that passes the 8-bit checksum and is the canonical text of another account is the format\'s '
                 'residual risk (counted, not judged)'],
 'min_cases': {'quick': 150000, 'thorough': 3000000},
 'min_stats': {'quick': {'values_roundtripped': 19000, 'noncanonical_encodings_offered': 30000, 'byte_strings_offered': 100000,
                         'texts_offered': 20000, 'corrupted_address_texts': 300000, 'signer_sets_with_recovered_key': 3000},
               'thorough': {'values_roundtripped': 390000, 'byte_strings_offered': 2000000}},
 'timeout_s': {'quick': 600, 'thorough': 5400}}
