# Driver configuration of C05
PROP = {
 'engine': 'c05', 'race': False, 'level': 'exploration', 'crash_is_violation': True,
 'technique': 'conservation monitor over per-transaction balance deltas (real miner path run on every prefix of the tx list) + whole-block ledger checks',
 'rule': 'scenario = world (1..4 deputies) + 5..18 blocks from the tx zoo (all 11 types, template and random bytecode, boxes, gas payers, '
         'candidate deposits/refunds, reward settings; chains cross snapshot, reward and term-boundary heights). For every block the real miner '
         'path is executed on every prefix of the included tx list; the difference between consecutive prefixes is one transaction\'s effect on '
         'every balance of the universe. Oracle per tx: residual after removing the prescribed fee flows (payer -= gasUsed*price per (sub)tx, '
         'miner income += sum) never sums to more than zero; plain transfers move exactly the amount; failed txs and non-value tx types move '
         'nothing; register moves funds only between candidate and deposit pool; gasUsed <= gasLimit. Per block: header.GasUsed = sum tx.GasUsed; '
         'sum of balances grows by at most the independently recomputed term rewards; no balance changes without a published balance log; '
         'mining with and without the discarded candidates gives the same balances. distinct = (deputies, height, candidate kinds); '
         'non-trivial = at least two tx types included or a reward block',
 'assumptions': ['the per-prefix executions are executions of the real miner path on the same parent; their agreement with in-block execution is C01\'s subject',
                 'burns are not enumerated: the residual sum may be negative (self-destruct to self), never positive',
                 'known deviation model: a box tx credits sub-tx gas twice; equal to spec+deviation with a box present is the known finding, anything else is a violation'],
 'min_cases': {'quick': 150, 'thorough': 4000},
 'min_stats': {'quick': {'txs_checked': 500, 'reward_blocks_checked': 5}},
 'timeout_s': {'quick': 900, 'thorough': 10800},
}
