#!/bin/sh
# setup_cmd: nothing is built from /repo here; every check rebuilds its engine from /repo's working tree.
set -e
cd "$(dirname "$0")"
mkdir -p evidence replays .build
export GOFLAGS=-mod=mod GOPROXY=off GOSUMDB=off GOTOOLCHAIN=local
go version >/dev/null
python3 -c "import json,sys; json.load(open('MANIFEST.json'))"
echo setup ok
